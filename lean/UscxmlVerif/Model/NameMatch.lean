import UscxmlVerif.Common.Bytes
/-!
# Model of `uscxml::nameMatch` (src/uscxml/util/String.cpp)

An index-for-index transliteration of the active (`#if 1`) scanner: `i`, `start`,
`eventDesc`, the `while (isspace(s[i + 1])) i++` skip, `std::string::operator[]` returning NUL at
`size()`, C-locale `isspace`.
-/
namespace UscxmlVerif.Model.NameMatch

/-- C-locale `isspace` -/
def isSpace (b : UInt8) : Bool := b == 32 || (9 ≤ b && b ≤ 13)

/-- `std::string::operator[]`: NUL at `size()` -/
def at0 (s : Bytes) (i : Nat) : UInt8 := s.getD i 0

/-- `s.substr(a, b - a)` -/
def extract (s : Bytes) (a b : Nat) : Bytes := (s.drop a).take (b - a)

/-- `while (isspace(s[i + 1])) i++;` — returns the final value of `i` -/
def skipWs (s : Bytes) : Nat → Nat → Nat
  | 0, i => i
  | fuel + 1, i => if isSpace (at0 s (i + 1)) then skipWs s fuel (i + 1) else i

/-- `if (d.find(c, d.size() - 1) != npos) d = d.substr(0, d.size() - 1)` -/
def stripLast (c : UInt8) (d : Bytes) : Bytes :=
  if d.getLast? == some c then d.dropLast else d

/-- the body executed for one non-empty descriptor: `true` = `return true` -/
def matchOne (d n : Bytes) : Bool :=
  let d1 := stripLast 42 d
  let d2 := stripLast 46 d1
  if d2.isEmpty then true
  else if d2.length > n.length then false
  else if d2 == n then true
  else d2.isPrefixOf n && at0 n d2.length == 46

def tryDesc (d n : Bytes) : Bool := !d.isEmpty && matchOne d n

/-- the `for` loop; `fuel` bounds the iterations (`ds.length + 1` suffices) -/
def loop (ds n : Bytes) : Nat → Nat → Nat → Bool
  | 0, _, _ => false
  | fuel + 1, i, start =>
    if i < ds.length then
      if isSpace (at0 ds i) then
        let desc := if start < i then extract ds start i else []
        let i' := skipWs ds ds.length i
        if tryDesc desc n then true else loop ds n fuel (i' + 1) (i' + 1)
      else if i + 1 == ds.length then
        let desc := extract ds start (i + 1)
        if tryDesc desc n then true else loop ds n fuel (i + 1) start
      else loop ds n fuel (i + 1) start
    else false

def nameMatch (ds n : Bytes) : Bool :=
  if ds.isEmpty || n.isEmpty then false
  else if ds == n then true
  else loop ds n (ds.length + 1) 0 0

end UscxmlVerif.Model.NameMatch
