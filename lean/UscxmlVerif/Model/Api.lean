import UscxmlVerif.Model.Large
import UscxmlVerif.Model.Fast
/-!
# Model of the interpreter's public life-cycle API (`Interpreter::step/receive/cancel/reset`)

`InterpreterImpl::step` initialises on the first call (`USCXML_INITIALIZED`) and delegates to the
micro-stepper afterwards; `receive` and `cancel` are legal in every life-cycle state (before
initialisation they are remembered and applied in `init()`, which the model expresses by
keeping the external queue and the cancel mark in the state from the beginning); `reset`
returns to the freshly instantiated interpreter. Single-threaded: one caller issues the
operations in sequence. What threads add (blocking `step`, teardown of the timer thread) is
explored by the stress suites of check C10, not modelled.
-/
namespace UscxmlVerif.Model.Api
open UscxmlVerif UscxmlVerif.Model UscxmlVerif.Model.Large

inductive Engine where
  | large | fast
  deriving Repr, DecidableEq, Inhabited

/-- the life-cycle state reported by `getState()` -/
inductive LState where
  | instantiated
  | ret (r : Ret)
  deriving Repr, DecidableEq, Inhabited

def LState.toString : LState → String
  | .instantiated => "INSTANTIATED"
  | .ret r => r.toString

structure Api where
  inited : Bool := false
  last : LState := .instantiated
  rets : List Ret := []        -- results of `step` since instantiation / the last reset, oldest first
  e : EState := {}
  deriving Repr, Inhabited

/-- the interpreter object plus what was observed of its earlier incarnations (newest first) -/
structure Session where
  past : List Tok := []
  a : Api := {}
  deriving Repr, Inhabited

inductive Op where
  | step                      -- `step(0)`
  | quiesce                   -- `step(0)` until IDLE or FINISHED (at most `cap` times)
  | receive (ev : String)
  | cancel
  | reset
  | destroy                   -- delete the interpreter, create a new one for the same document
  | getState
  | inject (ev : String)     -- an internal event from outside a macrostep: a delayed `<send target="#_internal">`
                            -- that fires, the error event of a delayed delivery that fails (`enqueueInternal`)
  deriving Repr, DecidableEq, Inhabited

def engineStep (eng : Engine) (c : Chart) (e : EState) : EState × Ret :=
  match eng with
  | .large => Large.step c e
  | .fast => Fast.step c e

def cfgToken (c : Chart) (config : List Nat) : String :=
  "cfg:" ++ ",".intercalate (config.map (fun s => (Large.st c s).id))

/-- one call of `Interpreter::step(0)`; returns the result as well -/
def stepOnce (eng : Engine) (c : Chart) (a : Api) : Api × Ret :=
  if !a.inited then
    ({ a with inited := true, last := .ret .initialized, rets := a.rets ++ [.initialized] }, .initialized)
  else
    let (e, r) := engineStep eng c a.e
    ({ a with e := e, last := .ret r, rets := a.rets ++ [r] }, r)

/-- `step` as the harness observes it: result and configuration are appended to the log -/
def stepObserved (eng : Engine) (c : Chart) (a : Api) : Api × Ret :=
  let (a, r) := stepOnce eng c a
  ({ a with e := { a.e with x := (a.e.x.emit (.ret r.toString)).emit (.note (cfgToken c a.e.config)) } }, r)

def quiesce (eng : Engine) (c : Chart) : Nat → Api → Api
  | 0, a => { a with e := { a.e with x := a.e.x.emit (.note "DIVERGE") } }
  | fuel + 1, a =>
    let (a, r) := stepObserved eng c a
    if r == .idle || r == .finished then a else quiesce eng c fuel a

def cap : Nat := 60

/-- operations on a live interpreter object -/
def applyApi (eng : Engine) (c : Chart) (a : Api) : Op → Api
  | .step => (stepObserved eng c a).1
  | .quiesce => quiesce eng c cap a
  | .receive ev => { a with e := { a.e with x := a.e.x.sendExt ev } }
  | .cancel =>
    -- `markAsCancelled()` + the empty event that unblocks a waiting `step()`
    { a with e := { a.e with cancelled := true, x := (a.e.x.emit (.note "cancel")).sendExt "" } }
  | .getState => { a with e := { a.e with x := a.e.x.emit (.note s!"state:{a.last.toString}") } }
  | .inject ev => { a with e := { a.e with x := a.e.x.raise ev } }
  | .reset | .destroy => a     -- handled by `apply`

/-- `reset()` and destruction + re-creation end the incarnation: what follows starts from the
freshly instantiated interpreter `{}` -/
def apply (eng : Engine) (c : Chart) (s : Session) : Op → Session
  | .reset => { past := Tok.note "reset" :: (s.a.e.x.obs ++ s.past), a := {} }
  | .destroy => { past := Tok.note "destroyed" :: (s.a.e.x.obs ++ s.past), a := {} }
  | op => { s with a := applyApi eng c s.a op }

def run (eng : Engine) (c : Chart) (ops : List Op) : Session := ops.foldl (apply eng c) {}

/-- everything observed, oldest first -/
def Session.log (s : Session) : List String := ((s.a.e.x.obs ++ s.past).reverse).map Tok.toString

end UscxmlVerif.Model.Api
