/-!
# Model of `BasicEventQueue`: a FIFO whose operations are atomic

`enqueue` and `dequeue` each run entirely under `_mutex`; a schedule is the order in which the
operations of all threads took the mutex. An event carries the identity of its sender and the
sender's sequence number. `deq` on an empty queue returns nothing (a blocking `dequeue` simply
has not returned yet).
-/
namespace UscxmlVerif.Model.EventQueue

structure Ev where
  sender : Nat
  seq : Nat
  deriving Repr, DecidableEq, Inhabited

inductive Op where
  | enq (e : Ev)
  | deq
  deriving Repr, DecidableEq, Inhabited

structure Q where
  queue : List Ev := []
  out : List Ev := []          -- what `dequeue` returned so far, oldest first
  deriving Repr, Inhabited

def step (q : Q) : Op → Q
  | .enq e => { q with queue := q.queue ++ [e] }
  | .deq =>
    match q.queue with
    | [] => q
    | e :: rest => { queue := rest, out := q.out ++ [e] }

def run (ops : List Op) : Q := ops.foldl step {}

/-- everything handed to `enqueue`, in the order the calls took the mutex -/
def enqueued : List Op → List Ev
  | [] => []
  | .enq e :: ops => e :: enqueued ops
  | .deq :: ops => enqueued ops

end UscxmlVerif.Model.EventQueue
