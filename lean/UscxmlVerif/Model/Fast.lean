import UscxmlVerif.Model.Large
/-!
# Model of `FastMicroStep::step` (the alternative micro-step engine)

Same phases as `Model.Large`, with what is peculiar to this engine: selection scans *all
transitions* in post-fix order (not the active states), conflicts come from the matrix
pre-computed in `init` (overlap of the static exit intervals), `children` holds all
descendants, the entry loops run over a growing bit set, states already active are skipped
while entering. `EState`, the content executor and the helper functions are shared with
`Model.Large`; `configPF` is unused.
-/
namespace UscxmlVerif.Model.Fast
open UscxmlVerif UscxmlVerif.Model UscxmlVerif.Model.Large

/-- `Transition::conflicts` as computed in `init` -/
def conflicts (c : Chart) (i j : Nat) : Bool :=
  i != j && overlaps (exitSet c (tr c i)) (exitSet c (tr c j))

/-- `State::children` of this engine: all descendants -/
def descendants (c : Chart) (s : Nat) : List Nat :=
  (List.range c.states.size).filter (fun k => hasAnc c k s)

/-- the selection loop over all transitions -/
def selectLoop (c : Chart) (config : List Nat) (ev : Option String) : List Nat → Sel → List Nat → Sel
  | [], sel, _ => sel
  | ti :: rest, sel, confl =>
    let t := tr c ti
    if t.isHistory || t.isInitial then selectLoop c config ev rest sel confl
    else if !mem t.source config then selectLoop c config ev rest sel confl
    else if (t.event.isNone && ev.isSome) || (t.event.isSome && ev.isNone) then selectLoop c config ev rest sel confl
    else
      let unserved := (atomicsUnder c config t.source).filter (fun k => !mem k sel.served)
      match unserved.head? with
      | none => selectLoop c config ev rest sel confl
      | some firstUnserved =>
        if (match ev, t.event with
            | some e, some d => !isMatched e d
            | _, _ => false) then selectLoop c config ev rest sel confl
        else
          let (x, ok) := evalCond c config sel.x t.cond
          let sel := { sel with x := x }
          if !ok then selectLoop c config ev rest sel confl
          else
            let sel := { sel with served := insAll (atomicsUnder c config t.source) sel.served }
            if mem ti confl then selectLoop c config ev rest sel confl
            else
              let es := exitSet c t
              let sel := { sel with
                found := true
                targetSet := insAll t.targets sel.targetSet
                exitSet := if es.1 != 0 then insAll ((List.range c.states.size).filter (fun s => es.1 ≤ s && s ≤ es.2)) sel.exitSet else sel.exitSet
                transSet := ins ti sel.transSet
                order := sel.order ++ [(firstUnserved, ti)] }
              let confl := insAll ((List.range c.trans.size).filter (conflicts c ti)) confl
              selectLoop c config ev rest sel confl

/-- one visit of the "iterate for descendants" loop; returns the new entry and transition sets -/
def descVisit (c : Chart) (e : EState) (exitS : List Nat) (s : Nat) (entry transSet : List Nat) :
    List Nat × List Nat :=
  let S := st c s
  match S.typ with
  | .final | .atomic => (entry, transSet)
  | .parallel => (insAll S.completion entry, transSet)
  | .histShallow | .histDeep =>
    if !inter S.completion e.history then
      match S.trans with
      | ti :: _ =>
        let t := tr c ti
        let entry := insAll t.targets entry
        let entry := if S.typ == .histDeep then t.targets.foldl (fun en g => insAll (ancs c g) en) entry else entry
        (entry, ins ti transSet)
      | [] => (entry, transSet)
    else
      (insAll (S.completion.filter (fun k => mem k e.history)) entry, transSet)
  | .initial =>
    match S.trans with
    | [] => (entry, transSet)
    | _ =>
      S.trans.foldl (fun (acc : List Nat × List Nat) ti =>
        let t := tr c ti
        (t.targets.foldl (fun en g => insAll (ancs c g) (ins g en)) (acc.1.filter (· != s)), ins ti acc.2)) (entry, transSet)
  | .compound =>
    let ds := descendants c s
    if !inter entry ds && (!inter e.config ds || inter exitS ds) then
      let entry := insAll S.completion entry
      (S.completion.foldl (fun en k => insAll (ancs c k) en) entry, transSet)
    else (entry, transSet)

/-- `i = find_first(); …; i = find_next(i)` over the growing bit set -/
def descLoop (c : Chart) (e : EState) (exitS : List Nat) : Nat → Option Nat → List Nat → List Nat → List Nat × List Nat
  | 0, _, entry, ts => (entry, ts)
  | _, none, entry, ts => (entry, ts)
  | fuel + 1, some i, entry, ts =>
    let (entry', ts') := descVisit c e exitS i entry ts
    descLoop c e exitS fuel ((entry'.filter (· > i)).head?) entry' ts'

/-- `FastMicroStep::isInFinal` -/
def isInFinal (c : Chart) (config : List Nat) : Nat → Nat → Bool
  | 0, _ => true
  | fuel + 1, s =>
    let S := st c s
    match S.typ with
    | .final => true
    | .parallel => S.children.all (isInFinal c config fuel)
    | .compound =>
      match S.children.find? (fun ch => mem ch config) with
      | some ch => (st c ch).typ == .final
      | none => false
    | .histShallow | .histDeep => true
    | _ => false

/-- ENTER_STATES for one member of the entry set -/
def enterState (c : Chart) (transSet : List Nat) (e : EState) (s : Nat) : EState :=
  let S := st c s
  if mem s e.config then e
  else if S.typ.isPseudo then e
  else
    let x := e.x.emit (.be (S.id))
    let config := ins s e.config
    let x := execBlocks c config S.onentry x
    let x := x.emit (.ae (S.id))
    -- history and initial transitions whose source is a child of this state, in post-fix order
    let x := transSet.foldl (fun x ti =>
      let t := tr c ti
      if (t.isHistory || t.isInitial) && (st c t.source).parent == some s then takeTrans c config ti x else x) x
    let e := { e with config := config, x := x }
    if S.typ == .final then
      match S.parent with
      | some p =>
        let e := if p == 0 then { e with topLevelFinal := true }
                 else { e with x := e.x.raise (doneName c p) }
        if p != 0 then
          match (st c p).parent with
          | some gp =>
            if (st c gp).typ == .parallel && isInFinal c e.config c.states.size gp then
              { e with x := e.x.raise (doneName c gp) }
            else e
          | none => e
        else e
      | none => e
    else e

def microstep (c : Chart) (e : EState) (targetSet exitS transSet : List Nat) (order : List (Nat × Nat)) : EState :=
  let n := c.states.size
  let exitS := exitS.filter (fun s => mem s e.config)
  let entry := targetSet.foldl (fun en g => insAll (ancs c g) en) targetSet
  let (entry, transSet) := descLoop c e exitS (2 * n + 2) entry.head? entry transSet
  let e := exitS.reverse.foldl (fun e s =>
    let S := st c s
    let x := e.x.emit (.bx (S.id))
    let x := execBlocks c e.config S.onexit x
    let x := x.emit (.ax (S.id))
    { e with config := e.config.filter (· != s), x := x }) e
  let e := ((order.mergeSort (fun a b => a.1 ≤ b.1)).map (·.2)).foldl (fun e ti =>
    if (tr c ti).isHistory || (tr c ti).isInitial then e
    else { e with x := takeTrans c e.config ti e.x }) e
  let e := entry.foldl (enterState c transSet) e
  let e := { e with x := e.x.emit .am }
  let e := if e.microConfigs.contains e.config then { e with x := e.x.emit .issue } else e
  { e with microConfigs := e.config :: e.microConfigs }

def selectAndStep (c : Chart) (e : EState) (ev : Option String) : EState × Ret :=
  let e := { e with stable := false }
  let sel := selectLoop c e.config ev (List.range c.trans.size) { x := e.x } []
  let e := { e with x := sel.x }
  if !sel.found then ({ e with spontaneous := false }, .microstepped)
  else
    let e := { e with spontaneous := true }
    let e := { e with x := e.x.emit .bm }
    let exitS := sel.exitSet.filter (fun s => mem s e.config)
    -- REMEMBER_HISTORY
    let hist := (List.range c.states.size).foldl (fun h s =>
      let S := st c s
      if S.typ.isHistory && (match S.parent with | some p => mem p exitS | none => false) then
        insAll (S.completion.filter (fun k => mem k e.config)) (h.filter (fun k => !S.completion.contains k))
      else h) e.history
    let e := { e with history := hist }
    (microstep c e sel.targetSet exitS sel.transSet sel.order, .microstepped)

/-- `FastMicroStep::step(0)` once the interpreter is initialised -/
def step (c : Chart) (e : EState) : EState × Ret :=
  if e.finished then (e, .finished)
  else if e.topLevelFinal then
    let x := e.x.emit .bcomp
    let x := e.config.reverse.foldl (fun x s => execBlocks c e.config (st c s).onexit x) x
    let x := x.emit .acomp
    ({ e with x := x, finished := true }, .finished)
  else if e.pristine then
    let e := { e with pristine := false, spontaneous := true }
    let e := { e with x := e.x.emit .bm }
    (microstep c e (st c 0).completion [] [] [], .microstepped)
  else if e.spontaneous then selectAndStep c e none
  else
    match e.x.iq with
    | ev :: rest =>
      let e := { e with x := { e.x with iq := rest } }
      let e := { e with x := e.x.emit (.bpe ev) }
      selectAndStep c e (some ev)
    | [] =>
      let e := { e with invocations := e.config }
      if !e.stable then
        ({ e with x := e.x.emit .st, microConfigs := [], stable := true }, .macrostepped)
      else
        match e.x.eq with
        | ev :: rest =>
          let e := { e with x := { e.x with eq := rest } }
          if ev == "" then
            if e.cancelled then ({ e with topLevelFinal := true }, .cancelled) else (e, .idle)
          else
            let e := { e with x := e.x.emit (.bpe ev) }
            selectAndStep c e (some ev)
        | [] =>
          if e.cancelled then ({ e with topLevelFinal := true }, .cancelled) else (e, .idle)

end UscxmlVerif.Model.Fast
