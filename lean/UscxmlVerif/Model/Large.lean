import UscxmlVerif.Model.Exec
import UscxmlVerif.Model.NameMatch
/-!
# Model of `LargeMicroStep::step` (the default micro-step engine) behind `InterpreterImpl`

Phase by phase as in the C++: life-cycle flags → dequeue → `SELECT_TRANSITIONS` (scan of the
active states in post-fix order of their first transition, conflict = overlap of the exit
intervals) → remember history → `ESTABLISH_ENTRYSET` (ancestor loop with the C++ iterator
arithmetic, descendant loop) → exit → take → enter (done events through `isInFinal`).
Sets are ascending duplicate-free lists of document-order numbers. The per-transition
`compatible`/`conflicting` caches are memoisation of a pure function and are not modelled.
-/
namespace UscxmlVerif.Model.Large
open UscxmlVerif UscxmlVerif.Model

/-- insert into an ascending duplicate-free list -/
def ins (a : Nat) : List Nat → List Nat
  | [] => [a]
  | b :: bs => if a < b then a :: b :: bs else if a == b then b :: bs else b :: ins a bs

def insAll (as : List Nat) (s : List Nat) : List Nat := as.foldl (fun s a => ins a s) s

def mem (a : Nat) (s : List Nat) : Bool := s.contains a

inductive Ret where
  | finished | idle | initialized | microstepped | macrostepped | cancelled
  deriving Repr, BEq, DecidableEq, Inhabited

def Ret.toString : Ret → String
  | .finished => "FINISHED" | .idle => "IDLE" | .initialized => "INITIALIZED"
  | .microstepped => "MICROSTEPPED" | .macrostepped => "MACROSTEPPED" | .cancelled => "CANCELLED"

structure EState where
  config : List Nat := []
  configPF : List Nat := []        -- `_configurationPostFix`: ordered and *unique* by key
  history : List Nat := []
  invocations : List Nat := []
  pristine : Bool := true           -- `_flags == USCXML_CTX_PRISTINE`
  spontaneous : Bool := false
  stable : Bool := false
  topLevelFinal : Bool := false
  finished : Bool := false
  cancelled : Bool := false
  microConfigs : List (List Nat) := []
  x : XS := {}
  deriving Repr, Inhabited

def st (c : Chart) (i : Nat) : St := c.states[i]?.getD default
def tr (c : Chart) (i : Nat) : Tr := c.trans[i]?.getD default

/-- `State::postFixOrder`: number of the first transition, or `max` -/
def pfKey (c : Chart) (s : Nat) : Nat :=
  match (st c s).trans with
  | t :: _ => t
  | [] => c.trans.size + c.states.size + 1

/-- `flat_set<State*, StateOrderPostFix>::insert`: no-op if an element with that key exists -/
def pfInsert (c : Chart) (s : Nat) : List Nat → List Nat
  | [] => [s]
  | b :: bs =>
    if pfKey c s < pfKey c b then s :: b :: bs
    else if pfKey c s == pfKey c b then b :: bs
    else b :: pfInsert c s bs

/-- `flat_set::erase(key)`: removes the element whose key is equivalent -/
def pfErase (c : Chart) (s : Nat) (l : List Nat) : List Nat :=
  l.filter (fun b => pfKey c b != pfKey c s)

/-- proper ancestors of `s`, nearest first -/
def ancestors (c : Chart) : Nat → Nat → List Nat
  | 0, _ => []
  | fuel + 1, s =>
    match (st c s).parent with
    | some p => p :: ancestors c fuel p
    | none => []

def ancs (c : Chart) (s : Nat) : List Nat := ancestors c c.states.size s

def hasAnc (c : Chart) (s a : Nat) : Bool := (ancs c s).contains a

/-- `getTransitionDomain`; `none` = `numeric_limits<uint32_t>::max()` -/
def domain (c : Chart) (t : Tr) : Option Nat :=
  if t.targets.isEmpty then none
  else if t.internal && (st c t.source).typ == .compound && t.targets.all (fun g => hasAnc c g t.source) then
    some t.source
  else
    match (ancs c t.source).find? (fun a => (st c a).typ == .compound && t.targets.all (fun g => hasAnc c g a)) with
    | some a => some a
    | none => some 0

/-- the next proper sibling state of `s` or of its nearest ancestor that has one -/
def nextStateAfter (c : Chart) : Nat → Nat → Option Nat
  | 0, _ => none
  | fuel + 1, s =>
    match (st c s).parent with
    | some p =>
      match ((st c p).children.filter (fun k => k > s && (st c k).kind.isProper)).head? with
      | some sib => some sib
      | none => nextStateAfter c fuel p
    | none => none

/-- `getExitSet`: `(first, second)` document-order interval, `(0,0)` when there is no domain -/
def exitSet (c : Chart) (t : Tr) : Nat × Nat :=
  match domain c t with
  | none => (0, 0)
  | some d =>
    match nextStateAfter c c.states.size d with
    | some sib => (d + 1, sib - 1)
    | none => (d + 1, c.states.size - 1)

def overlaps (e1 e2 : Nat × Nat) : Bool :=
  e1.1 != 0 && e2.1 != 0 &&
    ((e1.1 ≤ e2.1 && e1.2 ≥ e2.1) || (e2.1 ≤ e1.1 && e2.2 ≥ e1.1))

structure Sel where
  found : Bool := false
  targetSet : List Nat := []
  exitSet : List Nat := []
  transSet : List Nat := []
  served : List Nat := []          -- active atomic states that already found an enabled transition
  order : List (Nat × Nat) := []   -- `_transOrder`: (first unserved atomic state, transition)
  x : XS
  deriving Inhabited

def isMatched (ev : String) (desc : String) : Bool :=
  NameMatch.nameMatch (bytesOfString desc) (bytesOfString ev)

/-- the active atomic states at or below `s` -/
def atomicsUnder (c : Chart) (config : List Nat) (s : Nat) : List Nat :=
  config.filter (fun k => ((st c k).typ == .atomic || (st c k).typ == .final) && (k == s || hasAnc c k s))

/-- the transition loop for one active state: the first enabled transition serves the active
atomic descendants; it is taken unless it conflicts with a transition selected earlier -/
def selectInState (c : Chart) (config : List Nat) (ev : Option String) (s : Nat) : List Nat → Sel → Sel
  | [], sel => sel
  | ti :: rest, sel =>
    let t := tr c ti
    if t.isHistory || t.isInitial then selectInState c config ev s rest sel
    else if (t.event.isNone && ev.isSome) || (t.event.isSome && ev.isNone) then selectInState c config ev s rest sel
    else
      let conflicts := sel.found && sel.transSet.any (fun e => overlaps (exitSet c t) (exitSet c (tr c e)))
      if (match ev, t.event with
          | some e, some d => !isMatched e d
          | _, _ => false) then selectInState c config ev s rest sel
      else
        let (x, ok) := evalCond c config sel.x t.cond
        let sel := { sel with x := x }
        if !ok then selectInState c config ev s rest sel
        else
          let firstUnserved := (((atomicsUnder c config s).filter (fun k => !mem k sel.served)).head?).getD 0
          let sel := { sel with served := insAll (atomicsUnder c config s) sel.served }
          if conflicts then sel
          else
            let es := exitSet c t
            { sel with
                found := true
                targetSet := insAll t.targets sel.targetSet
                exitSet := if es.1 != 0 then insAll (config.filter (fun s => es.1 ≤ s && s ≤ es.2)) sel.exitSet else sel.exitSet
                transSet := ins ti sel.transSet
                order := sel.order ++ [(firstUnserved, ti)] }

/-- the scan over `_configurationPostFix`; a state is skipped when every active atomic state at
or below it has been served -/
def selectLoop (c : Chart) (config : List Nat) (ev : Option String) : List Nat → Sel → Sel
  | [], sel => sel
  | s :: rest, sel =>
    if (atomicsUnder c config s).all (fun k => mem k sel.served) then selectLoop c config ev rest sel
    else selectLoop c config ev rest (selectInState c config ev s (st c s).trans sel)

def inter (a b : List Nat) : Bool := a.any (fun x => b.contains x)

/-- one visit of the "iterate for descendants" loop -/
def descVisit (c : Chart) (e : EState) (exitS : List Nat) (s : Nat) (entry transSet : List Nat) :
    List Nat × List Nat :=
  let S := st c s
  match S.typ with
  | .final | .atomic => (entry, transSet)
  | .parallel => (insAll S.completion entry, transSet)
  | .histShallow | .histDeep =>
    if !inter S.completion e.history then
      match S.trans with
      | ti :: _ =>
        let t := tr c ti
        let entry := insAll t.targets entry
        let entry := if S.typ == .histDeep then t.targets.foldl (fun en g => insAll (ancs c g) en) entry else entry
        (entry, ins ti transSet)
      | [] => (entry, transSet)
    else
      (insAll (S.completion.filter (fun k => mem k e.history)) entry, transSet)
  | .initial =>
    S.trans.foldl (fun (acc : List Nat × List Nat) ti =>
      let t := tr c ti
      (t.targets.foldl (fun en g => insAll (ancs c g) (ins g en)) acc.1, ins ti acc.2)) (entry, transSet)
  | .compound =>
    if S.children.any (fun ch => mem ch entry || (!mem ch exitS && mem ch e.config)) then (entry, transSet)
    else
      let entry := insAll S.completion entry
      let entry := S.completion.foldl (fun en k =>
        if S.children.contains k then en else insAll (ancs c k) en) entry
      (entry, transSet)

def descLoop (c : Chart) (e : EState) (exitS : List Nat) : Nat → Nat → List Nat → List Nat → List Nat × List Nat
  | 0, _, entry, ts => (entry, ts)
  | fuel + 1, i, entry, ts =>
    match entry[i]? with
    | none => (entry, ts)
    | some s =>
      let (entry', ts') := descVisit c e exitS s entry ts
      descLoop c e exitS fuel (i + 1) entry' ts'

/-- `LargeMicroStep::isInFinal` (fuel = number of states) -/
def isInFinal (c : Chart) (config : List Nat) : Nat → Nat → Bool
  | 0, _ => true
  | fuel + 1, s =>
    let S := st c s
    match S.typ with
    | .final => true
    | .atomic => false
    | .parallel => S.children.all (isInFinal c config fuel)
    | .initial => false
    | .compound =>
      match S.children.find? (fun ch => mem ch config) with
      | some ch => (st c ch).typ == .final
      | none => false
    | _ => true

def doneName (c : Chart) (s : Nat) : String := "done.state." ++ (st c s).id

def tname (c : Chart) (ti : Nat) : String :=
  let t := tr c ti
  let S := st c t.source
  if S.kind == .initial then s!"{(st c (S.parent.getD 0)).id}/i" else s!"{S.id}.{S.trans.idxOf ti}"

def takeTrans (c : Chart) (config : List Nat) (ti : Nat) (x : XS) : XS :=
  let t := tr c ti
  let x := x.emit (.bt (tname c ti))
  let x := if t.hasContent then execBlock c config t.content x else x
  x.emit (.at (tname c ti))

/-- ENTER_STATES for one state -/
def enterState (c : Chart) (transSet : List Nat) (e : EState) (s : Nat) : EState :=
  let S := st c s
  if S.typ.isPseudo then e
  else
    let x := e.x.emit (.be (S.id))
    let config := ins s e.config
    let configPF := pfInsert c s e.configPF
    let x := execBlocks c config S.onentry x
    let x := x.emit (.ae (S.id))
    let x := S.children.foldl (fun x ch =>
      if (st c ch).typ.isPseudo then
        (st c ch).trans.foldl (fun x ti =>
          if ((tr c ti).isHistory || (tr c ti).isInitial) && mem ti transSet then takeTrans c config ti x else x) x
      else x) x
    let e := { e with config := config, configPF := configPF, x := x }
    if S.typ == .final then
      match S.parent with
      | some p =>
        let e := if p == 0 then { e with topLevelFinal := true }
                 else { e with x := e.x.raise (doneName c p) }
        match (st c p).parent with
        | some gp =>
          if (st c gp).typ == .parallel && isInFinal c e.config c.states.size gp then
            { e with x := e.x.raise (doneName c gp) }
          else e
        | none => e
      | none => e
    else e

/-- everything from ESTABLISH_ENTRYSET to the end of `step` -/
def microstep (c : Chart) (e : EState) (targetSet exitS transSet : List Nat) (order : List (Nat × Nat)) : EState :=
  let n := c.states.size
  -- ESTABLISH_ENTRYSET
  let entry := targetSet.foldl (fun en g => insAll (ancs c g) en) targetSet
  let (entry, transSet) := descLoop c e exitS (2 * n + 2) 0 entry transSet
  -- EXIT_STATES
  let e := exitS.reverse.foldl (fun e s =>
    let S := st c s
    let x := e.x.emit (.bx (S.id))
    let x := execBlocks c e.config S.onexit x
    let x := x.emit (.ax (S.id))
    { e with config := e.config.filter (· != s), configPF := pfErase c s e.configPF, x := x }) e
  -- TAKE_TRANSITIONS
  let e := ((order.mergeSort (fun a b => a.1 ≤ b.1)).map (·.2)).foldl (fun e ti =>
    if (tr c ti).isHistory || (tr c ti).isInitial then e
    else { e with x := takeTrans c e.config ti e.x }) e
  -- remove active states from the entry set
  let entry := entry.filter (fun s => !mem s e.config)
  -- ENTER_STATES
  let e := entry.foldl (enterState c transSet) e
  let e := { e with x := e.x.emit .am }
  let e := if e.microConfigs.contains e.config then { e with x := e.x.emit .issue } else e
  { e with microConfigs := e.config :: e.microConfigs }

/-- SELECT_TRANSITIONS and what follows -/
def selectAndStep (c : Chart) (e : EState) (ev : Option String) : EState × Ret :=
  let e := { e with stable := false }
  let sel := selectLoop c e.config ev e.configPF { x := e.x }
  let e := { e with x := sel.x }
  if !sel.found then ({ e with spontaneous := false }, .microstepped)
  else
    let e := { e with spontaneous := true }
    let e := { e with x := e.x.emit .bm }
    -- REMEMBER_HISTORY
    let hist := (List.range c.states.size).foldl (fun h s =>
      let S := st c s
      if S.typ.isHistory && (match S.parent with | some p => mem p sel.exitSet | none => false) then
        S.completion.foldl (fun h k => if mem k e.config then ins k h else h.filter (· != k)) h
      else h) e.history
    let e := { e with history := hist }
    (microstep c e sel.targetSet sel.exitSet sel.transSet sel.order, .microstepped)

/-- `LargeMicroStep::step(0)` (non-blocking) once the interpreter is initialised -/
def step (c : Chart) (e : EState) : EState × Ret :=
  if e.finished then (e, .finished)
  else if e.topLevelFinal then
    let x := e.x.emit .bcomp
    let x := e.config.reverse.foldl (fun x s => execBlocks c e.config (st c s).onexit x) x
    let x := x.emit .acomp
    ({ e with x := x, finished := true }, .finished)
  else if e.pristine then
    let e := { e with pristine := false, spontaneous := true }
    let e := { e with x := e.x.emit .bm }
    (microstep c e (st c 0).completion [] [] [], .microstepped)
  else if e.spontaneous then selectAndStep c e none
  else
    match e.x.iq with
    | ev :: rest =>
      let e := { e with x := { e.x with iq := rest } }
      let e := { e with x := e.x.emit (.bpe ev) }
      selectAndStep c e (some ev)
    | [] =>
      let e := { e with invocations := e.config }
      if !e.stable then
        ({ e with x := e.x.emit .st, microConfigs := [], stable := true }, .macrostepped)
      else
        match e.x.eq with
        | ev :: rest =>
          let e := { e with x := { e.x with eq := rest } }
          if ev == "" then
            -- the empty event `cancel()` enqueues to unblock
            if e.cancelled then ({ e with topLevelFinal := true }, .cancelled) else (e, .idle)
          else
            let e := { e with x := e.x.emit (.bpe ev) }
            selectAndStep c e (some ev)
        | [] =>
          if e.cancelled then ({ e with topLevelFinal := true }, .cancelled) else (e, .idle)

end UscxmlVerif.Model.Large
