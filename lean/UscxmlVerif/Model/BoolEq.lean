/-!
# Systems of combinational Boolean equations, as emitted by the VHDL back-end

The translator (`translate/vhdl_eqs.py`) parses the signal assignments of the emitted text and
numbers signals and inputs; `value` gives the equations their meaning: the value of a signal is
the value of its defining expression, signals without a definition are false. The emitted systems
are acyclic; `fuel` bounds the recursion depth (the number of signals suffices).
-/
namespace UscxmlVerif.Model.BoolEq

inductive BExp where
  | const (b : Bool)
  | sig (i : Nat)
  | inp (i : Nat)
  | not (e : BExp)
  | and (es : List BExp)
  | or (es : List BExp)
  deriving Repr, Inhabited

abbrev Eqs := Array (Option BExp)     -- definition of signal i

mutual
def eval (eqs : Eqs) (inp : Nat → Bool) : Nat → BExp → Bool
  | _, .const b => b
  | _, .inp i => inp i
  | 0, .sig _ => false
  | fuel + 1, .sig i =>
    match eqs[i]? with
    | some (some e) => eval eqs inp fuel e
    | _ => false
  | fuel, .not e => !(eval eqs inp fuel e)
  | fuel, .and es => evalAll eqs inp fuel es
  | fuel, .or es => evalAny eqs inp fuel es
def evalAll (eqs : Eqs) (inp : Nat → Bool) : Nat → List BExp → Bool
  | _, [] => true
  | fuel, e :: es => eval eqs inp fuel e && evalAll eqs inp fuel es
def evalAny (eqs : Eqs) (inp : Nat → Bool) : Nat → List BExp → Bool
  | _, [] => false
  | fuel, e :: es => eval eqs inp fuel e || evalAny eqs inp fuel es
end

def value (eqs : Eqs) (inp : Nat → Bool) (i : Nat) : Bool := eval eqs inp (eqs.size + 1) (.sig i)

/-! The same meaning computed without re-evaluating shared signals: all signals are updated
synchronously from the previous round's values until nothing changes (an acyclic system of `n`
signals is stable after at most `n` rounds). -/
mutual
def evalIn (vals : Array Bool) (inp : Nat → Bool) : BExp → Bool
  | .const b => b
  | .inp i => inp i
  | .sig i => vals.getD i false
  | .not e => !(evalIn vals inp e)
  | .and es => evalInAll vals inp es
  | .or es => evalInAny vals inp es
def evalInAll (vals : Array Bool) (inp : Nat → Bool) : List BExp → Bool
  | [] => true
  | e :: es => evalIn vals inp e && evalInAll vals inp es
def evalInAny (vals : Array Bool) (inp : Nat → Bool) : List BExp → Bool
  | [] => false
  | e :: es => evalIn vals inp e || evalInAny vals inp es
end

def round (eqs : Eqs) (inp : Nat → Bool) (vals : Array Bool) : Array Bool :=
  eqs.map (fun d => match d with | some e => evalIn vals inp e | none => false)

def solveLoop (eqs : Eqs) (inp : Nat → Bool) : Nat → Array Bool → Array Bool
  | 0, vals => vals
  | fuel + 1, vals =>
    let vals' := round eqs inp vals
    if vals' == vals then vals else solveLoop eqs inp fuel vals'

def solve (eqs : Eqs) (inp : Nat → Bool) : Array Bool :=
  solveLoop eqs inp (eqs.size + 1) (Array.replicate eqs.size false)

end UscxmlVerif.Model.BoolEq
