/-! Byte strings and the hex codec of the line protocol. -/
namespace UscxmlVerif

abbrev Bytes := List UInt8

namespace Hex

def digit (n : Nat) : Char :=
  if n < 10 then Char.ofNat (48 + n) else Char.ofNat (87 + n)

def encodeByte (b : UInt8) : List Char := [digit (b.toNat / 16), digit (b.toNat % 16)]

/-- hex encoding; the empty byte string is written `-` so that fields never vanish -/
def encode (bs : Bytes) : String :=
  if bs.isEmpty then "-" else String.ofList (bs.flatMap encodeByte)

def val (c : Char) : Option Nat :=
  if '0' ≤ c ∧ c ≤ '9' then some (c.toNat - 48)
  else if 'a' ≤ c ∧ c ≤ 'f' then some (c.toNat - 87)
  else if 'A' ≤ c ∧ c ≤ 'F' then some (c.toNat - 55)
  else none

def decodeList : List Char → Option Bytes
  | [] => some []
  | [_] => none
  | a :: b :: rest => do
    let x ← val a
    let y ← val b
    let r ← decodeList rest
    pure (UInt8.ofNat (x * 16 + y) :: r)

def decode (s : String) : Option Bytes :=
  if s == "-" then some [] else decodeList s.toList

end Hex

def bytesOfString (s : String) : Bytes := s.toUTF8.toList

end UscxmlVerif
