/-!
# SCXML documents in the reference fragment, and the flat tables the engines build from them

`Doc` is what the generators produce (rendered to SCXML text for the real code, to an
S-expression for the model). `flatten` mirrors `LargeMicroStep::init`: `resortStates`
(initial, then history elements moved to the front of each parent — the DOM surgery
reverses their relative order), numbering of states in document order and of transitions
in post-fix order of their parent element, default completions.
-/
namespace UscxmlVerif

inductive Cond where
  | none                         -- no `cond` attribute
  | inState (id : String)        -- `In('id')`
  | never                        -- an expression every datamodel evaluates to false
  | notIn (id : String)          -- `not In('id')` (datamodels with negation only)
  | var (v : Nat) (k : Int)      -- `Var<v> == k` (datamodels with variables only)
  | err                          -- an expression whose evaluation raises error.execution
  deriving Repr, DecidableEq, Inhabited

/-- executable content; `elseif`/`else_` are marker children of `ite`, exactly as in the DOM -/
inductive Exec where
  | raise (uv : Nat) (name : String)
  | log (uv : Nat) (label : String)
  | send (uv : Nat) (name : String) (target : String)
  | fail (uv : Nat) (comm : Bool)
  | assign (uv : Nat) (v : Nat) (k : Int)          -- Var<v> = k
  | incr (uv : Nat) (v : Nat)                      -- Var<v> = Var<v> + 1
  | ite (uv : Nat) (cond : Cond) (children : List Exec)
  | elseif (cond : Cond)
  | else_
  deriving Repr, Inhabited

inductive Kind where
  | scxml | state | parallel | final | history | hdeep | initial
  deriving Repr, DecidableEq, Inhabited

structure RawTrans where
  event : Option String
  cond : Cond
  internal : Bool
  targets : Option (List String)     -- `none`: no target attribute
  content : List Exec
  deriving Repr, Inhabited

inductive Doc where
  | node (kind : Kind) (id : String) (initAttr : Option (List String))
      (onentry onexit : List (List Exec)) (trans : List RawTrans) (children : List Doc)
  deriving Repr, Inhabited

namespace Doc
def kind : Doc → Kind | node k _ _ _ _ _ _ => k
def id : Doc → String | node _ i _ _ _ _ _ => i
def initAttr : Doc → Option (List String) | node _ _ a _ _ _ _ => a
def onentry : Doc → List (List Exec) | node _ _ _ e _ _ _ => e
def onexit : Doc → List (List Exec) | node _ _ _ _ x _ _ => x
def trans : Doc → List RawTrans | node _ _ _ _ _ t _ => t
def children : Doc → List Doc | node _ _ _ _ _ _ c => c
end Doc

def Kind.isHistory : Kind → Bool
  | .history | .hdeep => true
  | _ => false

def Kind.isProper : Kind → Bool
  | .scxml | .state | .parallel | .final => true
  | _ => false

/-- the engines' classification of a state (`USCXML_STATE_*`) -/
inductive Typ where
  | atomic | compound | parallel | final | histShallow | histDeep | initial
  deriving Repr, DecidableEq, Inhabited

def Typ.isHistory : Typ → Bool
  | .histShallow | .histDeep => true
  | _ => false

def Typ.isPseudo : Typ → Bool
  | .histShallow | .histDeep | .initial => true
  | _ => false

structure St where
  kind : Kind
  typ : Typ
  id : String
  parent : Option Nat
  children : List Nat               -- all state-like children in document order
  completion : List Nat             -- ascending
  trans : List Nat                  -- post-fix numbers, document order
  onentry : List (List Exec)
  onexit : List (List Exec)
  deriving Repr, Inhabited

structure Tr where
  source : Nat
  targets : List Nat                -- resolved ids, attribute order
  targetless : Bool
  internal : Bool
  event : Option String
  cond : Cond
  hasContent : Bool
  content : List Exec
  isHistory : Bool
  isInitial : Bool
  deriving Repr, Inhabited

structure Chart where
  states : Array St
  trans : Array Tr
  late : Bool := false
  deriving Repr, Inhabited

/-- `resortStates` for one element: each history child, in document order, is moved to the very
front (so they end up reversed), then each initial child likewise -/
def resortChildren (cs : List Doc) : List Doc :=
  let hs := cs.filter (·.kind.isHistory)
  let rest := cs.filter (fun c => !c.kind.isHistory)
  let step1 := hs.reverse ++ rest
  let is := step1.filter (·.kind == .initial)
  let rest2 := step1.filter (fun c => c.kind != .initial)
  is.reverse ++ rest2

mutual
def Doc.resort : Doc → Doc
  | .node k i a e x t cs => .node k i a e x t (resortChildren (Doc.resortList cs))
def Doc.resortList : List Doc → List Doc
  | [] => []
  | d :: ds => d.resort :: Doc.resortList ds
end

mutual
def Doc.size : Doc → Nat
  | .node _ _ _ _ _ _ cs => 1 + Doc.sizeList cs
def Doc.sizeList : List Doc → Nat
  | [] => 0
  | d :: ds => d.size + Doc.sizeList ds
end

-- pre-order list of (node, parent number); `next` = number of the first node
mutual
def Doc.preorder : Doc → Option Nat → Nat → List (Doc × Option Nat)
  | d@(.node _ _ _ _ _ _ cs), p, next => (d, p) :: Doc.preorderList cs (some next) (next + 1)
def Doc.preorderList : List Doc → Option Nat → Nat → List (Doc × Option Nat)
  | [], _, _ => []
  | d :: ds, p, next => d.preorder p next ++ Doc.preorderList ds p (next + d.size)
end

-- post-order list of document-order numbers
mutual
def Doc.postorder : Doc → Nat → List Nat
  | .node _ _ _ _ _ _ cs, me => Doc.postorderList cs (me + 1) ++ [me]
def Doc.postorderList : List Doc → Nat → List Nat
  | [], _ => []
  | d :: ds, next => d.postorder next ++ Doc.postorderList ds (next + d.size)
end

def lookupId (nodes : List (Doc × Option Nat)) (id : String) : Option Nat :=
  nodes.findIdx? (fun n => n.1.id == id && n.1.id != "")

/-- numbers of the direct children of `i` -/
def childrenOf (nodes : List (Doc × Option Nat)) (i : Nat) : List Nat :=
  (List.range nodes.length).filter (fun j => (nodes[j]?.map (·.2)) == some (some i))

def isProperAt (nodes : List (Doc × Option Nat)) (j : Nat) : Bool :=
  match nodes[j]? with
  | some (d, _) => d.kind.isProper
  | none => false

def isHistoryAt (nodes : List (Doc × Option Nat)) (j : Nat) : Bool :=
  match nodes[j]? with
  | some (d, _) => d.kind.isHistory
  | none => false

/-- ancestor-or-self test by walking parents (fuel = number of nodes) -/
def isAncOf (nodes : List (Doc × Option Nat)) : Nat → Nat → Nat → Bool
  | 0, _, _ => false
  | fuel + 1, a, j =>
    match nodes[j]? with
    | some (_, some p) => p == a || isAncOf nodes fuel a p
    | _ => false

/-- `isAtomic`/`isParallel`/… of Predicates.cpp as used by `init` -/
def typOf (nodes : List (Doc × Option Nat)) (i : Nat) (d : Doc) : Typ :=
  match d.kind with
  | .initial => .initial
  | .final => .final
  | .history => .histShallow
  | .hdeep => .histDeep
  | .parallel => .parallel
  | _ => if ((childrenOf nodes i).filter (isProperAt nodes)).isEmpty then .atomic else .compound

/-- `getCompletion` -/
def completionOf (nodes : List (Doc × Option Nat)) (i : Nat) (d : Doc) (par : Option Nat) : List Nat :=
  let n := nodes.length
  match d.kind with
  | .hdeep =>
    match par with
    | some p => (List.range n).filter (fun j => j != i && isAncOf nodes n p j && !isHistoryAt nodes j)
    | none => []
  | .history =>
    match par with
    | some p => (childrenOf nodes p).filter (fun j => j != i && !isHistoryAt nodes j)
    | none => []
  | .parallel => (childrenOf nodes i).filter (isProperAt nodes)
  | _ =>
    match d.initAttr with
    | some ids => (ids.filterMap (lookupId nodes)).mergeSort (· ≤ ·) |>.eraseDups
    | none =>
      let cs := childrenOf nodes i
      match cs.find? (fun j => (nodes[j]?.map (·.1.kind)) == some Kind.initial) with
      | some j => [j]
      | none =>
        match cs.find? (isProperAt nodes) with
        | some j => [j]
        | none => []

def flatten (d0 : Doc) (late : Bool := false) : Chart :=
  let d := d0.resort
  let nodes := d.preorder none 0
  let post := d.postorder 0
  -- transitions in post-fix order of their parent element: (source number, index, raw)
  let tlist : List (Nat × RawTrans) := post.flatMap (fun s =>
    match nodes[s]? with
    | some (n, _) => n.trans.map (fun t => (s, t))
    | none => [])
  let trs : List Tr := tlist.map (fun (s, t) =>
    let k := (nodes[s]?.map (·.1.kind)).getD .state
    { source := s
      targets := (t.targets.getD []).filterMap (lookupId nodes)
      targetless := t.targets.isNone
      internal := t.internal
      event := t.event
      cond := t.cond
      hasContent := !t.content.isEmpty
      content := t.content
      isHistory := k.isHistory
      isInitial := k == .initial })
  let idxs := List.range tlist.length
  let sts : List St := (List.range nodes.length).map (fun i =>
    match nodes[i]? with
    | some (n, p) =>
      { kind := n.kind, typ := typOf nodes i n, id := n.id, parent := p
        children := childrenOf nodes i
        completion := completionOf nodes i n p
        trans := idxs.filter (fun k => (tlist[k]?.map (·.1)) == some i)
        onentry := n.onentry, onexit := n.onexit }
    | none => default)
  { states := sts.toArray, trans := trs.toArray, late := late }

end UscxmlVerif
