import UscxmlVerif.Model.Large
import UscxmlVerif.Spec.W3C
import UscxmlVerif.Proofs.Select
import UscxmlVerif.Proofs.CfgInv
/-!
# C01 — the interpreter follows the W3C SCXML step algorithm

`Model.Large.step` is the model of `LargeMicroStep::step` behind `InterpreterImpl`;
`Spec.W3C.run` is Appendix D. The correspondence suite `trace-large` ties the model to the
compiled interpreter on the full monitor alphabet and compares both with the specification.
-/
namespace UscxmlVerif.Properties.C01
open UscxmlVerif UscxmlVerif.Model UscxmlVerif.Model.Large

/-- **partial** (pre-emption, Appendix D `removeConflictingTransitions`): whatever the chart, the configuration, the event
and the outcome of the conditions, the transition set LargeMicroStep selects holds no two distinct transitions whose
exit-set intervals overlap. Not covered by this theorem: that the intervals are the exit sets (document-order numbering:
a state's descendants are the interval after it) and that the *first* enabled transition in document order wins - the
comparison with `Spec.W3C.run` on generated charts decides those. -/
theorem selection_conflict_free_partial (c : Chart) (config : List Nat) (ev : Option String) (pf : List Nat) (x : XS) :
    ∀ i ∈ (Large.selectLoop c config ev pf { x := x }).transSet, ∀ j ∈ (Large.selectLoop c config ev pf { x := x }).transSet,
      i ≠ j → overlaps (exitSet c (tr c i)) (exitSet c (tr c j)) = false :=
  Proofs.Select.large_selection_conflict_free c config ev pf x

/-- the relation is the intended one on a concrete pair: [2,3] and [3,5] overlap, [2,3] and [4,5] do not, an empty
exit set (first = 0) overlaps nothing -/
example : overlaps (2, 3) (3, 5) = true ∧ overlaps (2, 3) (4, 5) = false ∧ overlaps (0, 0) (0, 7) = false := by decide

end UscxmlVerif.Properties.C01
