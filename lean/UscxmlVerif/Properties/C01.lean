import UscxmlVerif.Model.Large
import UscxmlVerif.Spec.W3C
import UscxmlVerif.Proofs.Select
import UscxmlVerif.Proofs.CfgInv
import UscxmlVerif.Proofs.Interval
import UscxmlVerif.Proofs.Subtree
import UscxmlVerif.Proofs.ExitSet
/-!
# C01 — the interpreter follows the W3C SCXML step algorithm

`Model.Large.step` is the model of `LargeMicroStep::step` behind `InterpreterImpl`;
`Spec.W3C.run` is Appendix D. The correspondence suite `trace-large` ties the model to the
compiled interpreter on the full monitor alphabet and compares both with the specification.
-/
namespace UscxmlVerif.Properties.C01
open UscxmlVerif UscxmlVerif.Model UscxmlVerif.Model.Large

/-- **partial** (pre-emption, Appendix D `removeConflictingTransitions`): whatever the chart, the configuration, the event
and the outcome of the conditions, the transition set LargeMicroStep selects holds no two distinct transitions whose
exit-set intervals overlap. Not covered by this theorem: that the intervals are the exit sets (document-order numbering:
a state's descendants are the interval after it) and that the *first* enabled transition in document order wins - the
comparison with `Spec.W3C.run` on generated charts decides those. -/
theorem selection_conflict_free_partial (c : Chart) (config : List Nat) (ev : Option String) (pf : List Nat) (x : XS) :
    ∀ i ∈ (Large.selectLoop c config ev pf { x := x }).transSet, ∀ j ∈ (Large.selectLoop c config ev pf { x := x }).transSet,
      i ≠ j → overlaps (exitSet c (tr c i)) (exitSet c (tr c j)) = false :=
  Proofs.Select.large_selection_conflict_free c config ev pf x

/-- **pre-emption in Appendix D's terms**: on a chart that is coherent and numbered in pre-order (both decidable, evaluated on
every generated chart), two distinct transitions LargeMicroStep selects - transitions of real states with real targets -
never leave a common state in the sense of Appendix D's `computeExitSet`, in any configuration of real states: the optimal
transition set is conflict-free as `removeConflictingTransitions` demands. Not covered: *which* of two conflicting
transitions wins (document order), decided by the comparison with `Spec.W3C.run`. -/
theorem selection_conflict_free_w3c (c : Chart) (hc : Proofs.Struct.Coherent c = true) (hi : Proofs.Interval.IntervalOK c = true)
    (config : List Nat) (ev : Option String) (pf : List Nat) (x : XS) (S : Spec.W3C.SState) (hcfg : Proofs.Struct.ConfigOk c S.config)
    (hplain : ∀ i ∈ (Large.selectLoop c config ev pf { x := x }).transSet, Properties.C05.plainTrans c (Model.Tables.tr c i) = true) :
    ∀ i ∈ (Large.selectLoop c config ev pf { x := x }).transSet, ∀ j ∈ (Large.selectLoop c config ev pf { x := x }).transSet,
      i ≠ j → ∀ s, ¬ (s ∈ Spec.W3C.exitSetOf c S i ∧ s ∈ Spec.W3C.exitSetOf c S j) := by
  intro i hi' j hj hne s hs
  have hno := selection_conflict_free_partial c config ev pf x i hi' j hj hne
  exact Proofs.Interval.disjoint_of_not_overlaps c hc hi S hcfg i j (hplain i hi') (hplain j hj) hno s hs.1 hs.2

/-- the two chart hypotheses are theorems for the charts the checks work with: `flatten` of a well-formed document (root
`<scxml>`, only scxml / state / parallel elements have state-like children, no child is an scxml element) is coherent
(`Proofs.Flatten.coherent_flatten`) and numbered in pre-order (`Proofs.Subtree.intervalOK_flatten`: the descendants of a
state are the interval after it, and `nextStateAfter` finds the end of that interval because `resortStates` puts the
pseudo-states first). So for every such document, every configuration of real states, every event and every outcome of the
conditions: the transitions LargeMicroStep selects (those of real states with real targets) have pairwise disjoint
Appendix D exit sets. -/
theorem selection_conflict_free_w3c_of_document (d : Doc) (late : Bool) (hwf : Proofs.Flatten.WFDoc d = true) (hroot : d.kind = .scxml)
    (config : List Nat) (ev : Option String) (pf : List Nat) (x : XS) (S : Spec.W3C.SState)
    (hcfg : Proofs.Struct.ConfigOk (flatten d late) S.config)
    (hplain : ∀ i ∈ (Large.selectLoop (flatten d late) config ev pf { x := x }).transSet,
      Properties.C05.plainTrans (flatten d late) (Model.Tables.tr (flatten d late) i) = true) :
    ∀ i ∈ (Large.selectLoop (flatten d late) config ev pf { x := x }).transSet,
      ∀ j ∈ (Large.selectLoop (flatten d late) config ev pf { x := x }).transSet,
      i ≠ j → ∀ s, ¬ (s ∈ Spec.W3C.exitSetOf (flatten d late) S i ∧ s ∈ Spec.W3C.exitSetOf (flatten d late) S j) :=
  selection_conflict_free_w3c (flatten d late) (Proofs.Flatten.coherent_flatten d late hwf hroot)
    (Proofs.Subtree.intervalOK_flatten d late hwf hroot) config ev pf x S hcfg hplain

/-- **the exit set of a micro-step is Appendix D's** (as a set): for every well-formed document, in every configuration of real
states, for every event and every outcome of the conditions, the states LargeMicroStep is going to exit are exactly
`computeExitSet` of the transitions it selected (transitions of real states with real targets; a transition into a
history state is the recorded deviation `hist-domain`). Not covered: the *order* in which they are exited and what their
exit handlers do - decided by the comparison with `Spec.W3C.run`. -/
theorem exit_set_is_appendix_d_of_document (d : Doc) (late : Bool) (hwf : Proofs.Flatten.WFDoc d = true) (hroot : d.kind = .scxml)
    (config : List Nat) (ev : Option String) (pf : List Nat) (xs : XS) (S : Spec.W3C.SState) (hS : S.config = config)
    (hcfg : Proofs.Struct.ConfigOk (flatten d late) config)
    (hplain : ∀ i ∈ (Large.selectLoop (flatten d late) config ev pf { x := xs }).transSet,
      Properties.C05.plainTrans (flatten d late) (Model.Tables.tr (flatten d late) i) = true) (x : Nat) :
    x ∈ (Large.selectLoop (flatten d late) config ev pf { x := xs }).exitSet ↔
      x ∈ Spec.W3C.computeExitSet (flatten d late) S (Large.selectLoop (flatten d late) config ev pf { x := xs }).transSet :=
  Proofs.ExitSet.large_exit_set_is_w3c (flatten d late) (Proofs.Flatten.coherent_flatten d late hwf hroot)
    (Proofs.Subtree.intervalOK_flatten d late hwf hroot) config ev pf xs S hS hcfg hplain x

/-- the numbering hypothesis holds of a concrete chart (and `Coherent` of the same one, `Properties.C05.sample`) -/
example : Proofs.Interval.IntervalOK Properties.C05.sample = true := by decide

/-- the relation is the intended one on a concrete pair: [2,3] and [3,5] overlap, [2,3] and [4,5] do not, an empty
exit set (first = 0) overlaps nothing -/
example : overlaps (2, 3) (3, 5) = true ∧ overlaps (2, 3) (4, 5) = false ∧ overlaps (0, 0) (0, 7) = false := by decide

end UscxmlVerif.Properties.C01
