import UscxmlVerif.Model.Large
import UscxmlVerif.Spec.W3C
/-!
# C01 — the interpreter follows the W3C SCXML step algorithm

`Model.Large.step` is the model of `LargeMicroStep::step` behind `InterpreterImpl`;
`Spec.W3C.run` is Appendix D. The correspondence suite `trace-large` ties the model to the
compiled interpreter on the full monitor alphabet and compares both with the specification.
-/
namespace UscxmlVerif.Properties.C01
open UscxmlVerif

end UscxmlVerif.Properties.C01
