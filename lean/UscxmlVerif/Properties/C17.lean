import UscxmlVerif.Model.PromelaExpr
import UscxmlVerif.Generated.PromelaPrec
/-!
# C17 — the Promela datamodel evaluates expressions with Promela's integer semantics

`Generated.PromelaPrec` is re-created on every run by probing the compiled parser and
evaluator (`translate/promela_tables.py`); the theorems below are therefore re-checked against
what the code does now. `Model.Promela.evalModel` is the evaluator of the C++ parameterised
by the probed implementation table; `evalSpec` is Promela/C.
-/
namespace UscxmlVerif.Properties.C17
open UscxmlVerif.Model.Promela UscxmlVerif.Generated.PromelaPrec

/-- the operator set of the property -/
def propertyOps : List BinOp :=
  [.or, .and, .eq, .ne, .gt, .lt, .ge, .le, .lshift, .rshift, .plus, .minus, .times, .divide, .modulo]

/-- expressions over the property's operator set -/
def inFragment : PExpr → Bool
  | .const _ | .bool _ | .var _ | .fld _ _ => true
  | .arr _ i => inFragment i
  | .bin op l r => propertyOps.contains op && inFragment l && inFragment r
  | .neg e => inFragment e
  | .uminus e => inFragment e

/-- **every operator of the property has an evaluator case** (re-checked against the probed table) -/
theorem every_operator_evaluated : ∀ op ∈ propertyOps, probedImpl.hasOp op = true := by decide

theorem probed_flags : probedImpl.hasUnaryMinus = true ∧ probedImpl.checksZeroDivisor = true ∧
    probedImpl.checksNegativeIndex = true := by decide

/-- arithmetic is 32 bit two's complement without undefined behaviour (probed on the UBSan build) -/
theorem probed_wraps : probedImpl.wrapsOverflow = true := by decide

theorem arith_probed (v : Int) : arith probedImpl v = .ok (wrap32 v) := by simp [arith, probed_wraps]
theorem arith_full (v : Int) : arith fullImpl v = .ok (wrap32 v) := by simp [arith, fullImpl]

/-- **the evaluator of the code is Promela/C's**, for every store and every expression over the
property's operator set; arithmetic is 32 bit two's complement with wrap-around on both sides -/
theorem evalModel_eq_spec (σ : Store) : ∀ e : PExpr, inFragment e = true →
    evalModel probedImpl σ e = evalSpec σ e := by
  intro e
  induction e with
  | const n => intro _; rfl
  | bool b => intro _; rfl
  | var n => intro _; rfl
  | fld n p => intro _; rfl
  | arr n i ih =>
    intro h
    simp only [inFragment] at h
    simp only [evalSpec, evalModel] at ih ⊢
    rw [ih h]
    simp [probed_flags.2.2, fullImpl]
  | neg e ih =>
    intro h
    simp only [inFragment] at h
    simp only [evalSpec, evalModel] at ih ⊢
    rw [ih h]
  | uminus e ih =>
    intro h
    simp only [inFragment] at h
    simp only [evalSpec, evalModel] at ih ⊢
    rw [ih h]
    simp [probed_flags.1, fullImpl, arith, probed_wraps]
  | bin op l r ihl ihr =>
    intro h
    simp only [inFragment, Bool.and_eq_true] at h
    obtain ⟨⟨hop, hl⟩, hr⟩ := h
    have hop' : op ∈ propertyOps := List.mem_of_elem_eq_true hop
    have himpl := every_operator_evaluated op hop'
    simp only [evalSpec] at ihl ihr ⊢
    unfold evalModel
    rw [ihl hl, ihr hr]
    simp [himpl, probed_flags.2.1, fullImpl, arith, probed_wraps]

/-- "not a crash" -/
def NC (r : Except EvalErr Int) : Prop := r ≠ .error .crash

theorem nc_ok (v : Int) : NC (.ok v) := by simp [NC]
theorem nc_err {e : EvalErr} (h : e ≠ .crash) : NC (.error e) := by simp [NC, h]

theorem nc_bind {x : Except EvalErr Int} {f : Int → Except EvalErr Int} (hx : NC x) (hf : ∀ v, NC (f v)) :
    NC (x >>= f) := by
  cases x with
  | error e => simpa [bind, Except.bind] using hx
  | ok v => simpa [bind, Except.bind] using hf v

/-- **faults are errors, never crashes**: on every expression (in or outside the fragment) the
model of the code ends in a value or a clean error -/
theorem faults_are_errors (σ : Store) : ∀ e : PExpr, NC (evalModel probedImpl σ e) := by
  intro e
  induction e with
  | const n => exact nc_ok _
  | bool b => exact nc_ok _
  | var n =>
    simp only [evalModel]
    split
    · exact nc_ok _
    · exact nc_err (by decide)
    · exact nc_err (by decide)
  | fld n p =>
    simp only [evalModel]
    split
    · exact nc_err (by decide)
    · split
      · exact nc_ok _
      · exact nc_err (by decide)
    · exact nc_err (by decide)
  | arr n i ih =>
    simp only [evalModel]
    refine nc_bind ih (fun k => ?_)
    split
    · exact nc_err (by decide)
    · simp only [probed_flags.2.2, if_true]
      split
      · exact nc_err (by decide)
      · split
        · exact nc_err (by decide)
        · exact nc_ok _
    · exact nc_err (by decide)
  | neg e ih =>
    simp only [evalModel]
    exact nc_bind ih (fun _ => nc_ok _)
  | uminus e ih =>
    simp only [evalModel, probed_flags.1]
    exact nc_bind ih (fun _ => by rw [arith_probed]; exact nc_ok _)
  | bin op l r ihl ihr =>
    unfold evalModel
    split
    · exact nc_err (by decide)
    · split
      · refine nc_bind ihl (fun a => ?_)
        split
        · exact nc_ok _
        · exact nc_bind ihr (fun _ => nc_ok _)
      · split
        · refine nc_bind ihl (fun a => ?_)
          split
          · exact nc_ok _
          · exact nc_bind ihr (fun _ => nc_ok _)
        · refine nc_bind ihl (fun a => nc_bind ihr (fun b => ?_))
          have hz := probed_flags.2.1
          have hw := probed_wraps
          cases op <;> simp only [hz, hw, arith_probed, if_true] <;>
            first
              | exact nc_ok _
              | exact nc_err (by decide)
              | (split <;> first | exact nc_ok _ | exact nc_err (by decide))

/-- **precedence, partial**: for every pair of property operators other than the `||`/`&&`
mix, the compiled parser groups `a o1 b o2 c` as Promela/C does -/
theorem prec_table_is_promela_partial :
    ∀ o1 ∈ propertyOps, ∀ o2 ∈ propertyOps,
      ¬ ((o1 = .or ∧ o2 = .and) ∨ (o1 = .and ∧ o2 = .or)) →
      probedTable.reduceFirst o1 o2 = specTable.reduceFirst o1 o2 := by decide

/-- full statement (false of the current tree, see the witness below and known_findings.txt) -/
def PrecTableIsPromela : Prop :=
  ∀ o1 ∈ propertyOps, ∀ o2 ∈ propertyOps, probedTable.reduceFirst o1 o2 = specTable.reduceFirst o1 o2

/-- witness of the recorded finding `prec-or-and`: `a || b && c` is grouped `(a || b) && c` -/
theorem prec_or_and_witness : probedTable.reduceFirst .or .and = true ∧ specTable.reduceFirst .or .and = false := by decide

theorem not_PrecTableIsPromela : ¬ PrecTableIsPromela := by
  intro h
  have := h .or (by decide) .and (by decide)
  exact absurd this (by decide)

/-- unary operators: `!` always binds tighter than a binary operator; unary minus is applied
first except before `* / %`, where `-(a*b)`, `-(a/b)`, `-(a%b)` have the value C gives `(-a)*b`, … -/
theorem bang_first : ∀ o ∈ propertyOps, probedTable.bangFirst o = true := by decide
theorem minus_first_partial : ∀ o ∈ propertyOps, o ≠ .times → o ≠ .divide → o ≠ .modulo →
    probedTable.minusFirst o = true := by decide

/-- non-vacuity: a concrete expression in the fragment, parsed with the probed table and evaluated:
`a - b * 2` with a = 7, b = 3 is 1 -/
example : (match parseOperand probedTable 40 [.name "a", .op .minus, .name "b", .op .times, .num 2] [] with
    | some (e, []) => inFragment e && (match evalModel probedImpl [("a", .int 7), ("b", .int 3)] e with | .ok 1 => true | _ => false)
    | _ => false) = true := by decide

end UscxmlVerif.Properties.C17
