import UscxmlVerif.Spec.Legal
import UscxmlVerif.Model.Fast
import UscxmlVerif.Proofs.Select
import UscxmlVerif.Proofs.CfgInv
import UscxmlVerif.Proofs.Nest
import UscxmlVerif.Proofs.Interval
import UscxmlVerif.Proofs.Subtree
import UscxmlVerif.Proofs.DownRunFast
import UscxmlVerif.Proofs.DownOk
/-!
# C03 — the two micro-step engines are interchangeable (what is proved of both alike)

Equality of the two engines' traces on every chart is decided by running them side by side
(suite `engines`) - the algorithms differ (LargeMicroStep scans the active states in post-fix
order, FastMicroStep scans all transitions against pre-computed conflict sets). Proved here,
for every chart and every input, of both engine models alike: the selected transition set is
conflict-free; the configuration stays a set of real states; the notification stream has the
same shape (well nested, C13).
-/
namespace UscxmlVerif.Properties.C03
open UscxmlVerif UscxmlVerif.Model UscxmlVerif.Model.Large

/-- **partial**: both engines select conflict-free transition sets, whatever the chart, configuration, event and conditions -/
theorem both_engines_select_conflict_free_partial (c : Chart) (config : List Nat) (ev : Option String) (pf : List Nat) (x : XS) :
    (∀ i ∈ (Large.selectLoop c config ev pf { x := x }).transSet, ∀ j ∈ (Large.selectLoop c config ev pf { x := x }).transSet,
      i ≠ j → overlaps (exitSet c (tr c i)) (exitSet c (tr c j)) = false) ∧
    (∀ i ∈ (Fast.selectLoop c config ev (List.range c.trans.size) { x := x } []).transSet,
      ∀ j ∈ (Fast.selectLoop c config ev (List.range c.trans.size) { x := x } []).transSet,
      i ≠ j → overlaps (exitSet c (tr c i)) (exitSet c (tr c j)) = false) :=
  ⟨Proofs.Select.large_selection_conflict_free c config ev pf x, Proofs.Select.fast_selection_conflict_free c config ev x⟩

/-- ... and for FastMicroStep too this means disjoint exit sets in Appendix D's sense (same hypotheses as
`Properties.C01.selection_conflict_free_w3c`) -/
theorem fast_selection_conflict_free_w3c (c : Chart) (hc : Proofs.Struct.Coherent c = true) (hi : Proofs.Interval.IntervalOK c = true)
    (config : List Nat) (ev : Option String) (x : XS) (S : Spec.W3C.SState) (hcfg : Proofs.Struct.ConfigOk c S.config)
    (hplain : ∀ i ∈ (Fast.selectLoop c config ev (List.range c.trans.size) { x := x } []).transSet,
      Properties.C05.plainTrans c (Model.Tables.tr c i) = true) :
    ∀ i ∈ (Fast.selectLoop c config ev (List.range c.trans.size) { x := x } []).transSet,
      ∀ j ∈ (Fast.selectLoop c config ev (List.range c.trans.size) { x := x } []).transSet,
      i ≠ j → ∀ s, ¬ (s ∈ Spec.W3C.exitSetOf c S i ∧ s ∈ Spec.W3C.exitSetOf c S j) := by
  intro i hi' j hj hne s hs
  have hno := Proofs.Select.fast_selection_conflict_free c config ev x i hi' j hj hne
  exact Proofs.Interval.disjoint_of_not_overlaps c hc hi S hcfg i j (hplain i hi') (hplain j hj) hno s hs.1 hs.2

/-- the same with no hypothesis left about the chart: every well-formed document -/
theorem fast_selection_conflict_free_w3c_of_document (d : Doc) (late : Bool) (hwf : Proofs.Flatten.WFDoc d = true) (hroot : d.kind = .scxml)
    (config : List Nat) (ev : Option String) (x : XS) (S : Spec.W3C.SState) (hcfg : Proofs.Struct.ConfigOk (flatten d late) S.config)
    (hplain : ∀ i ∈ (Fast.selectLoop (flatten d late) config ev (List.range (flatten d late).trans.size) { x := x } []).transSet,
      Properties.C05.plainTrans (flatten d late) (Model.Tables.tr (flatten d late) i) = true) :
    ∀ i ∈ (Fast.selectLoop (flatten d late) config ev (List.range (flatten d late).trans.size) { x := x } []).transSet,
      ∀ j ∈ (Fast.selectLoop (flatten d late) config ev (List.range (flatten d late).trans.size) { x := x } []).transSet,
      i ≠ j → ∀ s, ¬ (s ∈ Spec.W3C.exitSetOf (flatten d late) S i ∧ s ∈ Spec.W3C.exitSetOf (flatten d late) S j) :=
  fast_selection_conflict_free_w3c (flatten d late) (Proofs.Flatten.coherent_flatten d late hwf hroot)
    (Proofs.Subtree.intervalOK_flatten d late hwf hroot) config ev x S hcfg hplain

/-- both engines keep the configuration ascending and free of pseudo-states, step by step -/
theorem both_engines_keep_configuration_a_set (c : Chart) (e : EState) (h : Proofs.CfgInv.EOk c e) :
    Proofs.CfgInv.EOk c (Large.step c e).1 ∧ Proofs.CfgInv.EOk c (Fast.step c e).1 :=
  ⟨Proofs.CfgInv.large_step_ok c e h, Proofs.CfgInv.fast_step_ok c e h⟩

/-- both engines keep every active state's parent active and the configuration inside the chart, step by step, on history-free
charts (the hypotheses are those of `Properties.C02.parents_stay_active_partial`) -/
theorem both_engines_keep_parents_partial (c : Chart) (hcoh : Proofs.Struct.Coherent c = true) (hi : Proofs.Interval.IntervalOK c = true)
    (hk : Proofs.EntryClosed.EntryOk c = true) (hp : Proofs.Parents.SelPlain c = true) (hpf : Proofs.ParentsFast.SelPlainF c = true)
    (e : EState) (h : Proofs.Parents.PC c e) :
    Proofs.Parents.PC c (Large.step c e).1 ∧ Proofs.Parents.PC c (Fast.step c e).1 :=
  ⟨Proofs.Parents.large_step_pc c hcoh hi (Proofs.EntryClosed.eok_of_entryOk hk) hp e h,
   Proofs.ParentsFast.fast_step_pc c hcoh hi (Proofs.EntryClosed.eok_of_entryOk hk) hpf e h⟩

/-- both engines keep the configuration complete downwards (all children of an active parallel, a child of an active compound state),
step by step, on history-free charts (hypotheses of `Properties.C02.active_states_are_complete_partial`) -/
theorem both_engines_keep_complete_partial (c : Chart) (hcoh : Proofs.Struct.Coherent c = true) (hi : Proofs.Interval.IntervalOK c = true)
    (hk : Proofs.EntryClosed.EntryOk c = true) (hd : Proofs.DownOk.DownOk c = true) (hp : Proofs.Parents.SelPlain c = true)
    (hpf : Proofs.ParentsFast.SelPlainF c = true) (e : EState) (h : Proofs.DownRun.DC c e) :
    Proofs.DownRun.DC c (Large.step c e).1 ∧ Proofs.DownRun.DC c (Fast.step c e).1 :=
  ⟨Proofs.DownRun.large_step_dc c hcoh hi (Proofs.EntryClosed.eok_of_entryOk hk) (Proofs.DownOk.dok_of_downOk hd) hp e h,
   Proofs.DownRunFast.fast_step_dc c hcoh hi (Proofs.EntryClosed.eok_of_entryOk hk) (Proofs.DownOk.dok_of_downOk hd) hpf e h⟩

end UscxmlVerif.Properties.C03
