import UscxmlVerif.Spec.Legal
import UscxmlVerif.Model.Fast
namespace UscxmlVerif.Properties.C03
end UscxmlVerif.Properties.C03
