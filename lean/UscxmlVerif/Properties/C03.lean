import UscxmlVerif.Spec.Legal
import UscxmlVerif.Model.Fast
import UscxmlVerif.Proofs.Select
import UscxmlVerif.Proofs.CfgInv
import UscxmlVerif.Proofs.Nest
/-!
# C03 — the two micro-step engines are interchangeable (what is proved of both alike)

Equality of the two engines' traces on every chart is decided by running them side by side
(suite `engines`) - the algorithms differ (LargeMicroStep scans the active states in post-fix
order, FastMicroStep scans all transitions against pre-computed conflict sets). Proved here,
for every chart and every input, of both engine models alike: the selected transition set is
conflict-free; the configuration stays a set of real states; the notification stream has the
same shape (well nested, C13).
-/
namespace UscxmlVerif.Properties.C03
open UscxmlVerif UscxmlVerif.Model UscxmlVerif.Model.Large

/-- **partial**: both engines select conflict-free transition sets, whatever the chart, configuration, event and conditions -/
theorem both_engines_select_conflict_free_partial (c : Chart) (config : List Nat) (ev : Option String) (pf : List Nat) (x : XS) :
    (∀ i ∈ (Large.selectLoop c config ev pf { x := x }).transSet, ∀ j ∈ (Large.selectLoop c config ev pf { x := x }).transSet,
      i ≠ j → overlaps (exitSet c (tr c i)) (exitSet c (tr c j)) = false) ∧
    (∀ i ∈ (Fast.selectLoop c config ev (List.range c.trans.size) { x := x } []).transSet,
      ∀ j ∈ (Fast.selectLoop c config ev (List.range c.trans.size) { x := x } []).transSet,
      i ≠ j → overlaps (exitSet c (tr c i)) (exitSet c (tr c j)) = false) :=
  ⟨Proofs.Select.large_selection_conflict_free c config ev pf x, Proofs.Select.fast_selection_conflict_free c config ev x⟩

/-- both engines keep the configuration ascending and free of pseudo-states, step by step -/
theorem both_engines_keep_configuration_a_set (c : Chart) (e : EState) (h : Proofs.CfgInv.EOk c e) :
    Proofs.CfgInv.EOk c (Large.step c e).1 ∧ Proofs.CfgInv.EOk c (Fast.step c e).1 :=
  ⟨Proofs.CfgInv.large_step_ok c e h, Proofs.CfgInv.fast_step_ok c e h⟩

end UscxmlVerif.Properties.C03
