import UscxmlVerif.Model.DelayLocks
import UscxmlVerif.Properties.C09
/-!
# C09, the two locks: no deadlock between the timer thread and the interpreter thread

`Properties.C09` proves the ownership protocol of the queue for every schedule. Here the interpreter's
`_delayMutex` is added (`Model.DelayLocks`): the interpreter thread holds it throughout `<send delay>` and
`<cancel>`, the timer thread needs it to hand an event over.

* `reachable_projects`: every run of the two-lock model is a run of the queue model, so every theorem of
  `Properties.C09` (at most once, not early, cancelled ⇒ never delivered, no use after free) holds of it;
* `no_deadlock_two_locks`: in every reachable state in which a thread is in the middle of its work, some
  thread can move (the lock order is `_delayMutex` before `_mutex` on the interpreter thread, and the timer
  thread never holds `_mutex` while it asks for `_delayMutex`);
* `held_mutex_deadlocks`: the variant in which the timer thread keeps `_mutex` while it calls `eventReady`
  reaches a state in which neither thread can move - a `<cancel>` (or `<send delay>`) executed between timer
  expiry and delivery.
-/
namespace UscxmlVerif.Properties.C09
open UscxmlVerif.Model.DelayQueue
open UscxmlVerif.Model.DelayLocks
open UscxmlVerif.Model

/-! ## every two-lock run is a queue run -/

theorem step_q (v : Bool) (s s' : LS) (a : LAct) (h : DelayLocks.step v s a = some s') :
    s'.q = s.q ∨ ∃ b, DelayQueue.step s.q b = some s'.q := by
  cases a with
  | tick | fire _ | check | free =>
    simp only [DelayLocks.step, Option.map_eq_some_iff] at h
    obtain ⟨q', hq, rfl⟩ := h
    exact Or.inr ⟨_, hq⟩
  | deliver =>
    simp only [DelayLocks.step] at h
    split at h
    · cases h
    · simp only [Option.map_eq_some_iff] at h
      obtain ⟨q', hq, rfl⟩ := h
      exact Or.inr ⟨_, hq⟩
  | beginSend key due | beginCancel keys =>
    simp only [DelayLocks.step] at h
    split at h
    · cases h; exact Or.inl rfl
    · cases h
  | doSend =>
    simp only [DelayLocks.step] at h
    split at h
    · split at h
      · cases h
      · split at h
        · simp only [Option.map_eq_some_iff] at h
          obtain ⟨q', hq, rfl⟩ := h
          exact Or.inr ⟨_, hq⟩
        · simp only [Option.map_eq_some_iff] at h
          obtain ⟨q', hq, rfl⟩ := h
          exact Or.inr ⟨_, hq⟩
    · cases h
  | detachNext =>
    simp only [DelayLocks.step] at h
    split at h
    · split at h
      · cases h
      · split at h
        · simp only [Option.map_eq_some_iff] at h
          obtain ⟨q', hq, rfl⟩ := h
          exact Or.inr ⟨_, hq⟩
        · cases h; exact Or.inl rfl
    · cases h
  | disposeCur =>
    simp only [DelayLocks.step] at h
    split at h
    · simp only [Option.map_eq_some_iff] at h
      obtain ⟨q', hq, rfl⟩ := h
      exact Or.inr ⟨_, hq⟩
    · simp only [Option.map_eq_some_iff] at h
      obtain ⟨q', hq, rfl⟩ := h
      exact Or.inr ⟨_, hq⟩
    · cases h
  | finish =>
    simp only [DelayLocks.step] at h
    split at h
    · cases h; exact Or.inl rfl
    · cases h; exact Or.inl rfl
    · cases h

theorem dq_run_append (q q' q'' : DQ) (as bs : List Act) (h1 : DelayQueue.run q as = some q')
    (h2 : DelayQueue.run q' bs = some q'') : DelayQueue.run q (as ++ bs) = some q'' := by
  induction as generalizing q with
  | nil => simp only [DelayQueue.run, Option.some.injEq] at h1; subst h1; simpa using h2
  | cons a as ih =>
    simp only [DelayQueue.run] at h1
    cases hs : DelayQueue.step q a with
    | none => simp [hs] at h1
    | some q1 =>
      simp only [hs, Option.bind_some] at h1
      simp only [List.cons_append, DelayQueue.run, hs, Option.bind_some]
      exact ih q1 h1

theorem run_projects (v : Bool) (s s' : LS) (as : List LAct) (h : DelayLocks.run v s as = some s') :
    ∃ bs, DelayQueue.run s.q bs = some s'.q := by
  induction as generalizing s with
  | nil => simp only [DelayLocks.run, Option.some.injEq] at h; subst h; exact ⟨[], rfl⟩
  | cons a as ih =>
    simp only [DelayLocks.run] at h
    cases hs : DelayLocks.step v s a with
    | none => simp [hs] at h
    | some s1 =>
      simp only [hs, Option.bind_some] at h
      obtain ⟨bs, hb⟩ := ih s1 h
      rcases step_q v s s1 a hs with he | ⟨b, hb1⟩
      · exact ⟨bs, by rw [← he]; exact hb⟩
      · exact ⟨b :: bs, by simp only [DelayQueue.run, hb1, Option.bind_some]; exact hb⟩

/-- **the two-lock model refines the queue model**: whatever the two threads do under both locks, with the check a
section of its own or not, the queue goes through a run of `Model.DelayQueue` - every theorem of `Properties.C09`
about reachable queue states holds of it -/
theorem reachable_projects (v : Bool) (as : List LAct) (s : LS) (h : DelayLocks.run v {} as = some s) :
    ∃ bs, DelayQueue.run {} bs = some s.q := run_projects v {} s as h

/-- e.g.: under both locks an event is delivered at most once and not before it is due -/
theorem two_locks_once_and_not_early (v : Bool) (as : List LAct) (s : LS) (h : DelayLocks.run v {} as = some s)
    (i : Nat) (e : Entry) (hg : s.q.get i = some e) :
    e.deliveries ≤ 1 ∧ (e.deliveries = 1 → e.due ≤ e.deliveredAt) := by
  obtain ⟨bs, hb⟩ := reachable_projects v as s h
  exact once_and_not_early bs s.q hb i e hg

/-! ## which queue actions are enabled -/

theorem check_enabled {q : DQ} (hi : Inv q) {i : Nat} (ht : q.timer = .entered i) : (DelayQueue.step q .check).isSome := by
  obtain ⟨e, hg, hl, _⟩ := hi.entered i ht
  simp only [DelayQueue.step, ht, hg]
  rcases hl with hl | hl <;> simp [hl]

theorem deliver_enabled {q : DQ} (hi : Inv q) {i : Nat} (ht : q.timer = .owning i) : (DelayQueue.step q .deliver).isSome := by
  obtain ⟨e, hg, _⟩ := hi.owning i ht
  simp [DelayQueue.step, ht, hg]

theorem free_enabled {q : DQ} (hi : Inv q) {i : Nat} (ht : q.timer = .done i) : (DelayQueue.step q .free).isSome := by
  obtain ⟨e, hg, hl, _⟩ := hi.done i ht
  simp [DelayQueue.step, ht, hg, hl]

theorem dispose_enabled {q : DQ} (hi : Inv q) {i : Nat} (hm : i ∈ q.canc) (hc : q.timer.current ≠ some i) :
    (DelayQueue.step q (.dispose i)).isSome := by
  obtain ⟨e, hg, hl⟩ := hi.detached i hm
  have h2 : (q.timer.current == some i) = false := by simpa using hc
  simp [DelayQueue.step, hm, h2, hg, hl]

theorem detach_enabled {q : DQ} {key i : Nat} (hl : q.lookup key = some i) : (DelayQueue.step q (.detach key)).isSome := by
  obtain ⟨e, hg, _⟩ := lookup_inMap hl
  simp [DelayQueue.step, hl, hg]

theorem enqueue_enabled {q : DQ} {key : Nat} (due : Nat) (hl : q.lookup key = none) : (DelayQueue.step q (.enqueue key due)).isSome := by
  simp [DelayQueue.step, hl]

/-- an entry the interpreter thread is disposing of cannot be the one whose callback got past its check -/
theorem disposing_blocked_only_before_check {q : DQ} (hi : Inv q) {i : Nat} (hm : i ∈ q.canc) (hc : q.timer.current = some i) :
    q.timer = .entered i := by
  obtain ⟨e, hg, hl⟩ := hi.detached i hm
  cases ht : q.timer with
  | idle => simp [ht, Timer.current] at hc
  | entered j => simp only [ht, Timer.current, Option.some.injEq] at hc; rw [hc]
  | owning j =>
    simp only [ht, Timer.current, Option.some.injEq] at hc; subst hc
    obtain ⟨e', hg', hl', _⟩ := hi.owning j ht
    rw [hg] at hg'; cases hg'; rw [hl] at hl'; cases hl'
  | done j =>
    simp only [ht, Timer.current, Option.some.injEq] at hc; subst hc
    obtain ⟨e', hg', hl', _⟩ := hi.done j ht
    rw [hg] at hg'; cases hg'; rw [hl] at hl'; cases hl'

/-! ## the invariant of the two-lock layer -/

def dispIdx : IPc → Option Nat
  | .disposing i _ => some i
  | .sendDisposing i _ _ => some i
  | _ => none

structure LInv (v : Bool) (s : LS) : Prop where
  qinv : Inv s.q
  hold : v = false → s.holdM = false
  disp : ∀ i, dispIdx s.ipc = some i → i ∈ s.q.canc

theorem canc_timer {q q' : DQ} {a : Act} (ha : a = .tick ∨ (∃ i, a = .fire i) ∨ a = .check ∨ a = .deliver ∨ a = .free)
    (h : DelayQueue.step q a = some q') : q'.canc = q.canc := by
  rcases ha with rfl | ⟨i, rfl⟩ | rfl | rfl | rfl
  · simp only [DelayQueue.step, Option.some.injEq] at h; subst h; rfl
  · simp only [DelayQueue.step] at h
    split at h
    · split at h
      · simp only [Option.some.injEq] at h; subst h; rfl
      · cases h
    · cases h
  · simp only [DelayQueue.step] at h
    split at h
    · split at h
      · split at h <;> (simp only [Option.some.injEq] at h; subst h; rfl)
      · simp only [Option.some.injEq] at h; subst h; rfl
    · cases h
  · simp only [DelayQueue.step] at h
    split at h
    · split at h <;> (simp only [Option.some.injEq] at h; subst h; rfl)
    · cases h
  · simp only [DelayQueue.step] at h
    split at h
    · split at h
      · split at h <;> (simp only [Option.some.injEq] at h; subst h; rfl)
      · simp only [Option.some.injEq] at h; subst h; rfl
    · cases h

theorem detach_mem {q q' : DQ} {key i : Nat} (hl : q.lookup key = some i) (h : DelayQueue.step q (.detach key) = some q') :
    i ∈ q'.canc := by
  simp only [DelayQueue.step, hl] at h
  split at h
  · simp only [Option.some.injEq] at h; subst h; simp
  · cases h

theorem linv_init (v : Bool) : LInv v {} := ⟨inv_init, fun _ => rfl, fun i h => by simp [dispIdx] at h⟩

theorem linv_step (v : Bool) (s s' : LS) (a : LAct) (hi : LInv v s) (h : DelayLocks.step v s a = some s') : LInv v s' := by
  have timerAct : ∀ (b : Act) (q' : DQ) (hm : Bool), (b = .tick ∨ (∃ i, b = .fire i) ∨ b = .check ∨ b = .deliver ∨ b = .free) →
      DelayQueue.step s.q b = some q' → (v = false → hm = false) → LInv v { s with q := q', holdM := hm } := by
    intro b q' hm hb hq hh
    exact ⟨inv_step s.q q' b hi.qinv hq, hh, fun i hd => by rw [canc_timer hb hq]; exact hi.disp i hd⟩
  cases a with
  | tick =>
    simp only [DelayLocks.step, Option.map_eq_some_iff] at h
    obtain ⟨q', hq, rfl⟩ := h
    exact timerAct .tick q' s.holdM (Or.inl rfl) hq hi.hold
  | fire i =>
    simp only [DelayLocks.step, Option.map_eq_some_iff] at h
    obtain ⟨q', hq, rfl⟩ := h
    exact timerAct (.fire i) q' s.holdM (Or.inr (Or.inl ⟨i, rfl⟩)) hq hi.hold
  | free =>
    simp only [DelayLocks.step, Option.map_eq_some_iff] at h
    obtain ⟨q', hq, rfl⟩ := h
    exact timerAct .free q' s.holdM (Or.inr (Or.inr (Or.inr (Or.inr rfl)))) hq hi.hold
  | check =>
    simp only [DelayLocks.step, Option.map_eq_some_iff] at h
    obtain ⟨q', hq, rfl⟩ := h
    exact timerAct .check q' _ (Or.inr (Or.inr (Or.inl rfl))) hq (fun hv => by simp [hv])
  | deliver =>
    simp only [DelayLocks.step] at h
    split at h
    · cases h
    · simp only [Option.map_eq_some_iff] at h
      obtain ⟨q', hq, rfl⟩ := h
      exact timerAct .deliver q' false (Or.inr (Or.inr (Or.inr (Or.inl rfl)))) hq (fun _ => rfl)
  | beginSend key due =>
    simp only [DelayLocks.step] at h
    split at h
    · cases h; exact ⟨hi.qinv, hi.hold, fun i hd => by simp [dispIdx] at hd⟩
    · cases h
  | beginCancel keys =>
    simp only [DelayLocks.step] at h
    split at h
    · cases h; exact ⟨hi.qinv, hi.hold, fun i hd => by simp [dispIdx] at hd⟩
    · cases h
  | doSend =>
    simp only [DelayLocks.step] at h
    split at h
    · split at h
      · cases h
      · split at h
        · rename_i i hl
          simp only [Option.map_eq_some_iff] at h
          obtain ⟨q', hq, rfl⟩ := h
          refine ⟨inv_step s.q q' _ hi.qinv hq, hi.hold, fun j hd => ?_⟩
          simp only [dispIdx, Option.some.injEq] at hd; subst hd
          exact detach_mem hl hq
        · simp only [Option.map_eq_some_iff] at h
          obtain ⟨q', hq, rfl⟩ := h
          exact ⟨inv_step s.q q' _ hi.qinv hq, hi.hold, fun j hd => by simp [dispIdx] at hd⟩
    · cases h
  | detachNext =>
    simp only [DelayLocks.step] at h
    split at h
    · split at h
      · cases h
      · split at h
        · rename_i i hl
          simp only [Option.map_eq_some_iff] at h
          obtain ⟨q', hq, rfl⟩ := h
          refine ⟨inv_step s.q q' _ hi.qinv hq, hi.hold, fun j hd => ?_⟩
          simp only [dispIdx, Option.some.injEq] at hd; subst hd
          exact detach_mem hl hq
        · cases h; exact ⟨hi.qinv, hi.hold, fun j hd => by simp [dispIdx] at hd⟩
    · cases h
  | disposeCur =>
    simp only [DelayLocks.step] at h
    split at h
    · simp only [Option.map_eq_some_iff] at h
      obtain ⟨q', hq, rfl⟩ := h
      exact ⟨inv_step s.q q' _ hi.qinv hq, hi.hold, fun j hd => by simp [dispIdx] at hd⟩
    · simp only [Option.map_eq_some_iff] at h
      obtain ⟨q', hq, rfl⟩ := h
      exact ⟨inv_step s.q q' _ hi.qinv hq, hi.hold, fun j hd => by simp [dispIdx] at hd⟩
    · cases h
  | finish =>
    simp only [DelayLocks.step] at h
    split at h
    · cases h; exact ⟨hi.qinv, hi.hold, fun j hd => by simp [dispIdx] at hd⟩
    · cases h; exact ⟨hi.qinv, hi.hold, fun j hd => by simp [dispIdx] at hd⟩
    · cases h

theorem linv_run (v : Bool) (s s' : LS) (as : List LAct) (hi : LInv v s) (h : DelayLocks.run v s as = some s') : LInv v s' := by
  induction as generalizing s with
  | nil => simp only [DelayLocks.run, Option.some.injEq] at h; subst h; exact hi
  | cons a as ih =>
    simp only [DelayLocks.run] at h
    cases hs : DelayLocks.step v s a with
    | none => simp [hs] at h
    | some s1 =>
      simp only [hs, Option.bind_some] at h
      exact ih s1 (linv_step v s s1 a hi hs) h

/-! ## no deadlock -/

/-- **no deadlock with both locks**: for every schedule of the timer thread and the interpreter thread (any number of
`<send delay>` and `<cancel>` executions, each under `_delayMutex`, uuids fresh or not), whenever a thread is in the
middle of its work some thread can move. In particular a `<cancel>` or `<send>` executed in the window between timer
expiry and delivery does not block the session. -/
theorem no_deadlock_two_locks (as : List LAct) (s : LS) (h : DelayLocks.run false {} as = some s)
    (busy : s.q.timer ≠ .idle ∨ s.ipc ≠ .idle) :
    ∃ a ∈ progress, (DelayLocks.step false s a).isSome := by
  have hi := linv_run false {} s as (linv_init false) h
  have hM := hi.hold rfl
  have timerMoves : s.ipc = .idle → s.q.timer ≠ .idle → ∃ a ∈ progress, (DelayLocks.step false s a).isSome := by
    intro hipc hne
    cases ht : s.q.timer with
    | idle => exact absurd ht hne
    | entered i =>
      exact ⟨.check, by simp [progress], by simpa [DelayLocks.step] using check_enabled hi.qinv ht⟩
    | owning i =>
      exact ⟨.deliver, by simp [progress], by simpa [DelayLocks.step, hipc] using deliver_enabled hi.qinv ht⟩
    | done i =>
      exact ⟨.free, by simp [progress], by simpa [DelayLocks.step] using free_enabled hi.qinv ht⟩
  have disposeOrCheck : ∀ i, i ∈ s.q.canc → (DelayQueue.step s.q (.dispose i)).isSome ∨ (DelayQueue.step s.q .check).isSome := by
    intro i hm
    by_cases hc : s.q.timer.current = some i
    · exact Or.inr (check_enabled hi.qinv (disposing_blocked_only_before_check hi.qinv hm hc))
    · exact Or.inl (dispose_enabled hi.qinv hm hc)
  cases hipc : s.ipc with
  | idle =>
    rcases busy with b | b
    · exact timerMoves hipc b
    · exact absurd hipc b
  | sending key due =>
    refine ⟨.doSend, by simp [progress], ?_⟩
    cases hl : s.q.lookup key with
    | some i => simpa [DelayLocks.step, hipc, hM, hl] using detach_enabled hl
    | none => simpa [DelayLocks.step, hipc, hM, hl] using enqueue_enabled due hl
  | sendDisposing i key due =>
    rcases disposeOrCheck i (hi.disp i (by simp [hipc, dispIdx])) with hd | hc
    · exact ⟨.disposeCur, by simp [progress], by simpa [DelayLocks.step, hipc] using hd⟩
    · exact ⟨.check, by simp [progress], by simpa [DelayLocks.step] using hc⟩
  | cancelling keys =>
    cases keys with
    | nil => exact ⟨.finish, by simp [progress], by simp [DelayLocks.step, hipc]⟩
    | cons key rest =>
      refine ⟨.detachNext, by simp [progress], ?_⟩
      cases hl : s.q.lookup key with
      | some i => simpa [DelayLocks.step, hipc, hM, hl] using detach_enabled hl
      | none => simp [DelayLocks.step, hipc, hM, hl]
  | disposing i rest =>
    rcases disposeOrCheck i (hi.disp i (by simp [hipc, dispIdx])) with hd | hc
    · exact ⟨.disposeCur, by simp [progress], by simpa [DelayLocks.step, hipc] using hd⟩
    · exact ⟨.check, by simp [progress], by simpa [DelayLocks.step] using hc⟩
  | finishing => exact ⟨.finish, by simp [progress], by simp [DelayLocks.step, hipc]⟩

/-- the same, as a statement about `stuck` -/
theorem never_stuck (as : List LAct) (s : LS) (h : DelayLocks.run false {} as = some s) : stuck false s = false := by
  by_cases busy : s.q.timer ≠ .idle ∨ s.ipc ≠ .idle
  · obtain ⟨a, ha, hs⟩ := no_deadlock_two_locks as s h busy
    have hall : progress.all (fun a => (DelayLocks.step false s a).isNone) = false := by
      rw [Bool.eq_false_iff]; intro hall
      rw [List.all_eq_true] at hall
      have hx := hall a ha
      cases hy : DelayLocks.step false s a with
      | none => simp [hy] at hs
      | some _ => simp [hy] at hx
    simp [stuck, hall]
  · have h1 : s.q.timer = .idle := Decidable.byContradiction fun hn => busy (Or.inl hn)
    have h2 : s.ipc = .idle := Decidable.byContradiction fun hn => busy (Or.inr hn)
    simp [stuck, h1, h2]

/-- **the timer thread must not keep `_mutex` while it delivers**: in the variant that does, a `<cancel>` executed between
the timer's expiry and the delivery leaves both threads waiting for each other (the interpreter thread holds
`_delayMutex` and wants `_mutex`, the timer thread holds `_mutex` and wants `_delayMutex`) -/
theorem held_mutex_deadlocks :
    ∃ s, DelayLocks.run true {} [.beginSend 7 1, .doSend, .finish, .tick, .fire 0, .check, .beginCancel [7]] = some s ∧
      stuck true s = true := ⟨_, rfl, by decide⟩

/-- … and so does a delayed `<send>` in that window -/
theorem held_mutex_deadlocks_on_send :
    ∃ s, DelayLocks.run true {} [.beginSend 7 1, .doSend, .finish, .tick, .fire 0, .check, .beginSend 8 5] = some s ∧
      stuck true s = true := ⟨_, rfl, by decide⟩

/-! non-vacuity: the same schedules in the code as it is go on to the end; the race has both outcomes -/
example : (DelayLocks.run false {} [.beginSend 7 1, .doSend, .finish, .tick, .fire 0, .check, .beginCancel [7], .detachNext, .finish,
    .deliver, .free]).map (fun s => (s.q.fault, s.q.nodes.map (·.deliveries), stuck false s)) = some (false, [1], false) := by decide
example : (DelayLocks.run false {} [.beginSend 7 1, .doSend, .finish, .tick, .fire 0, .beginCancel [7], .detachNext, .check, .disposeCur,
    .finish]).map (fun s => (s.q.fault, s.q.nodes.map (·.deliveries), stuck false s)) = some (false, [0], false) := by decide
/-- the interpreter thread really waits in `event_del` while the callback of that event is on its way to the check -/
example : DelayLocks.run false {} [.beginSend 7 1, .doSend, .finish, .tick, .fire 0, .beginCancel [7], .detachNext, .disposeCur] = none := by decide
/-- … and the timer thread really waits for `_delayMutex` -/
example : DelayLocks.run false {} [.beginSend 7 1, .doSend, .finish, .tick, .fire 0, .check, .beginCancel [7], .deliver] = none := by decide

end UscxmlVerif.Properties.C09
