import UscxmlVerif.Model.Validate
namespace UscxmlVerif.Properties.C19
end UscxmlVerif.Properties.C19
