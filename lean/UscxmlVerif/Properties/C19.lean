import UscxmlVerif.Model.Validate
/-!
# C19 — what a document without fatal issues is guaranteed to satisfy

`Model.Validate.fatalIssues` mirrors the fatal checks of `InterpreterIssue::forInterpreter`; the
suite `classes` compares it with the compiled validator. Soundness, first part ("never
dereferences a missing state"): if no fatal issue is reported then every id a transition or an
`initial` attribute mentions is the id of an element of the document - so the `getState` calls
of the interpreter and of the transpilers find a node.
-/
namespace UscxmlVerif.Properties.C19
open UscxmlVerif UscxmlVerif.Model.Validate

/-- every remembered id belongs to an element of the document -/
def SeenOk (ns : Nodes) (seen : List (String × Nat)) : Prop :=
  ∀ id i, (id, i) ∈ seen → id ≠ "" ∧ ∃ n, nodeAt ns i = some n ∧ n.id = id

theorem foldl_seen {α} (l : List α) (f : Acc → α → Acc) (h : ∀ a g, (f a g).seen = a.seen) (a : Acc) :
    (l.foldl f a).seen = a.seen := by
  induction l generalizing a with
  | nil => rfl
  | cons x xs ih => simp only [List.foldl_cons]; rw [ih, h]

theorem ite_seen (c : Prop) [Decidable c] (a : Acc) (is : List String) :
    (if c then { a with issues := is } else a).seen = a.seen := by
  split <;> rfl

theorem histIssues_seen (ns : Nodes) (i : Nat) (d : Doc) (a : Acc) : (histIssues ns i d a).seen = a.seen := by
  unfold histIssues
  split
  · split
    · rfl
    · split
      · rfl
      · simp only
        split
        · split <;> split <;> rfl
        · rw [foldl_seen]
          · split <;> split <;> rfl
          · intro a g; exact ite_seen _ _ _
  · rfl

theorem stateStep_seen (ns : Nodes) (a : Acc) (i : Nat) (h : SeenOk ns a.seen) : SeenOk ns (stateStep ns a i).seen := by
  unfold stateStep
  cases hn : nodeAt ns i with
  | none => exact h
  | some d =>
    simp only
    split
    · exact h
    · split
      · exact h
      · rename_i _ hid
        split
        · simp only [histIssues_seen]; exact h
        · simp only [histIssues_seen]
          intro id j hm
          rcases List.mem_append.mp hm with hm | hm
          · exact h id j hm
          · simp only [List.mem_singleton, Prod.mk.injEq] at hm
            obtain ⟨h1, h2⟩ := hm
            subst h1; subst h2
            exact ⟨by simpa using hid, d, hn, rfl⟩

theorem statePass_seen (ns : Nodes) : SeenOk ns (statePass ns).seen := by
  unfold statePass
  suffices h : ∀ (l : List Nat) (a : Acc), SeenOk ns a.seen → SeenOk ns (l.foldl (stateStep ns) a).seen from
    h _ {} (by intro id i hm; cases hm)
  intro l
  induction l with
  | nil => intro a h; exact h
  | cons x xs ih => intro a h; exact ih _ (stateStep_seen ns a x h)

theorem mem_of_lookup {seen : List (String × Nat)} {id : String} {g : Nat} (h : seenLookup seen id = some g) :
    (id, g) ∈ seen := by
  unfold seenLookup at h
  induction seen with
  | nil => cases h
  | cons x xs ih =>
    obtain ⟨k, v⟩ := x
    simp only [List.lookup_cons] at h
    split at h
    · rename_i hk
      simp only [Option.some.injEq] at h
      have : id = k := by simpa using hk
      subst this; subst h
      exact List.mem_cons_self
    · exact List.mem_cons_of_mem _ (ih h)

/-- an id the validator has seen names an element of the document: the interpreter's `getState` finds it -/
theorem seen_names_element (ns : Nodes) (id : String) (g : Nat) (h : seenLookup (statePass ns).seen id = some g) :
    id ≠ "" ∧ ∃ n, nodeAt ns g = some n ∧ n.id = id :=
  statePass_seen ns id g (mem_of_lookup h)

theorem flatMap_nil {α β} {l : List α} {f : α → List β} (h : l.flatMap f = []) : ∀ x ∈ l, f x = [] := by
  intro x hx
  have := List.flatMap_eq_nil_iff.mp h
  exact this x hx

theorem append_nil_parts {α} {a b : List α} (h : a ++ b = []) : a = [] ∧ b = [] := List.append_eq_nil_iff.mp h

/-- **no dangling transition target**: in a document without fatal issues every id in a transition's `target` names an
element of the document (and no target attribute is empty) -/
theorem targets_resolve (d : Doc) (h : fatalIssues d = []) :
    ∀ i n, nodeAt (d.preorder none 0) i = some n → ∀ t ∈ n.trans, ∀ ids, t.targets = some ids →
      ids ≠ [] ∧ ∀ id ∈ ids, id ≠ "" ∧ ∃ g m, nodeAt (d.preorder none 0) g = some m ∧ m.id = id := by
  intro i n hn t ht ids hids
  unfold fatalIssues at h
  simp only at h
  -- isolate the second pass
  have h2 := (append_nil_parts (append_nil_parts (append_nil_parts (append_nil_parts (append_nil_parts (append_nil_parts h).1).1).1).1).1).2
  have hi : i < (d.preorder none 0).length := by
    unfold nodeAt at hn
    cases hg : (d.preorder none 0)[i]? with
    | none => rw [hg] at hn; cases hn
    | some x => exact (List.getElem?_eq_some_iff.mp hg).1
  have h3 := flatMap_nil h2 i (List.mem_range.mpr hi)
  rw [hn] at h3
  simp only at h3
  have h4 := flatMap_nil h3 t ht
  rw [hids] at h4
  simp only at h4
  obtain ⟨he, hf⟩ := append_nil_parts h4
  constructor
  · intro hnil
    rw [hnil] at he
    simp at he
  · intro id hid
    have hf' := List.filterMap_eq_nil_iff.mp hf id hid
    cases hl : seenLookup (statePass (d.preorder none 0)).seen id with
    | none => rw [hl] at hf'; simp at hf'
    | some g =>
      obtain ⟨h1, m, hm, hmid⟩ := seen_names_element _ id g hl
      exact ⟨h1, g, m, hm, hmid⟩

/-- **initial attributes resolve to descendants**: in a document without fatal issues every id in the `initial` attribute of a
state (or of the root) names a state-like descendant of that element -/
theorem initial_resolves (d : Doc) (h : fatalIssues d = []) :
    ∀ i ∈ allStates (d.preorder none 0) ++ [0], ∀ n, nodeAt (d.preorder none 0) i = some n → ∀ ids, n.initAttr = some ids →
      ∀ id ∈ ids, ∃ g m, nodeAt (d.preorder none 0) g = some m ∧ m.id = id ∧ (stateDescendants (d.preorder none 0) i).contains g = true := by
  intro i hi n hn ids hids id hid
  unfold fatalIssues at h
  simp only at h
  have h3 := (append_nil_parts (append_nil_parts (append_nil_parts (append_nil_parts (append_nil_parts h).1).1).1).1).2
  have h4 := flatMap_nil h3 i hi
  rw [hn] at h4
  simp only at h4
  rw [hids] at h4
  simp only at h4
  have h5 := List.filterMap_eq_nil_iff.mp h4 id hid
  cases hl : seenLookup (statePass (d.preorder none 0)).seen id with
  | none => rw [hl] at h5; simp at h5
  | some g =>
    rw [hl] at h5
    simp only at h5
    obtain ⟨_, m, hm, hmid⟩ := seen_names_element _ id g hl
    refine ⟨g, m, hm, hmid, ?_⟩
    by_cases hc : (stateDescendants (d.preorder none 0) i).contains g = true
    · exact hc
    · rw [if_neg hc] at h5; cases h5

/-- the premise is satisfiable and the conclusion not vacuous: scxml{ a -e-> b, b } -/
def sampleDoc : Doc :=
  .node .scxml "" none [] [] [] [
    .node .state "a" none [] [] [{ event := some "e", cond := .none, targets := some ["b"], internal := false, content := [] }] [],
    .node .state "b" none [] [] [] []]

example : fatalIssues sampleDoc = [] := by decide

end UscxmlVerif.Properties.C19
