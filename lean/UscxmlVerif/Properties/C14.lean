import UscxmlVerif.Model.Large
namespace UscxmlVerif.Properties.C14
end UscxmlVerif.Properties.C14
