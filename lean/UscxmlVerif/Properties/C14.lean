import UscxmlVerif.Model.Serial
/-!
# C14 — a serialized state resumes to identical behaviour

`Model.Serial.snapshot` / `restore` model what `serialize()` keeps and what `deserialize()` rebuilds
in a fresh interpreter. The theorem: at a point where a snapshot may be taken, nothing the
engines read is lost — the restored engine state *is* the original one, except for the observer's
log (which the engines only write). The correspondence suite `resume` runs original and restored
interpreter side by side on the same continuation; `Snapshotable` (sortedness of the sets, the
post-fix view being the rebuilt one) is what the engines maintain - checked there, not proved.
-/
namespace UscxmlVerif.Properties.C14
open UscxmlVerif UscxmlVerif.Model UscxmlVerif.Model.Large UscxmlVerif.Model.Serial

theorem ins_sorted_lt (a : Nat) : ∀ (l : List Nat), sorted l = true → (∀ x ∈ l, x < a) → ins a l = l ++ [a]
  | [], _, _ => rfl
  | b :: bs, hs, hlt => by
    have hb : b < a := hlt b (by simp)
    have h1 : ¬ a < b := by omega
    have h2 : (a == b) = false := by simp; omega
    have hs' : sorted bs = true := by
      cases bs with
      | nil => rfl
      | cons c cs => simp only [sorted, Bool.and_eq_true] at hs; exact hs.2
    simp only [ins, h1, if_false, h2, Bool.false_eq_true]
    rw [ins_sorted_lt a bs hs' (fun x hx => hlt x (by simp [hx]))]
    rfl

theorem sorted_append_lt : ∀ (l : List Nat) (a : Nat), sorted l = true → (∀ x ∈ l, x < a) → sorted (l ++ [a]) = true
  | [], _, _, _ => rfl
  | [b], a, _, h => by simp [sorted, h b (by simp)]
  | b :: c :: rest, a, hs, h => by
    simp only [sorted, Bool.and_eq_true, decide_eq_true_eq] at hs
    have := sorted_append_lt (c :: rest) a hs.2 (fun x hx => h x (by simp [hx]))
    simp only [List.cons_append, sorted, Bool.and_eq_true, decide_eq_true_eq]
    exact ⟨hs.1, this⟩

/-- inserting the elements of a strictly ascending list one by one rebuilds the list -/
theorem insAll_sorted : ∀ (l acc : List Nat), sorted (acc ++ l) = true → insAll l acc = acc ++ l := by
  intro l
  induction l with
  | nil => intro acc _; simp [insAll]
  | cons a rest ih =>
    intro acc hs
    simp only [insAll, List.foldl_cons]
    have hacc : sorted acc = true ∧ ∀ x ∈ acc, x < a := by
      clear ih
      induction acc with
      | nil => exact ⟨rfl, fun x hx => by cases hx⟩
      | cons b bs ihb =>
        cases bs with
        | nil =>
          simp only [List.cons_append, List.nil_append, sorted, Bool.and_eq_true, decide_eq_true_eq] at hs
          exact ⟨rfl, fun x hx => by simp at hx; omega⟩
        | cons c cs =>
          simp only [List.cons_append, sorted, Bool.and_eq_true, decide_eq_true_eq] at hs
          have := ihb (by simpa using hs.2)
          refine ⟨by simp only [sorted, Bool.and_eq_true, decide_eq_true_eq]; exact ⟨hs.1, this.1⟩, ?_⟩
          intro x hx
          simp only [List.mem_cons] at hx
          rcases hx with hx | hx | hx
          · have := this.2 c (by simp); omega
          · exact this.2 x (by simp [hx])
          · exact this.2 x (by simp [hx])
    rw [ins_sorted_lt a acc hacc.1 hacc.2]
    have : insAll rest (acc ++ [a]) = (acc ++ [a]) ++ rest := ih (acc ++ [a]) (by simpa using hs)
    simpa [insAll] using this

theorem insAll_nil_sorted (l : List Nat) (h : sorted l = true) : insAll l [] = l := by
  simpa using insAll_sorted l [] (by simpa using h)

/-- **nothing the engines read is lost in a snapshot**: restoring the snapshot of a snapshotable
state into a fresh interpreter for the same document gives the original engine state, except for the
observer's log (starts anew) and the post-fix view of the configuration, which is rebuilt — and agrees
with the original on every state that has transitions, the only ones the selection loop looks at -/
theorem restore_snapshot (c : Chart) (e : EState) (h : Snapshotable c e) :
    restore c (snapshot e) = { e with configPF := rebuildPF c e.config, x := { e.x with obs := [] } } ∧
    (restore c (snapshot e)).configPF.filter (hasTrans c) = e.configPF.filter (hasTrans c) := by
  obtain ⟨h1, h2, h3, h4, h5, h6, h7⟩ := h
  have key : restore c (snapshot e) = { e with configPF := rebuildPF c e.config, x := { e.x with obs := [] } } := by
    simp only [restore, snapshot, insAll_nil_sorted _ h1, insAll_nil_sorted _ h2, insAll_nil_sorted _ h3]
    cases e with
    | mk config configPF history invocations pristine spontaneous stable tlf finished cancelled mc x =>
      cases x with
      | mk iq eq obs vars =>
        simp only at h5 h6 h7
        subst h5 h6 h7
        rfl
  exact ⟨key, by rw [key]; exact h4.symm⟩

/-- a second snapshot of the restored state is the first one: snapshots are stable under resume -/
theorem snapshot_restore_idempotent (c : Chart) (e : EState) (h : Snapshotable c e) :
    snapshot (restore c (snapshot e)) = snapshot e := by
  rw [(restore_snapshot c e h).1]
  rfl

/-! non-vacuity -/
example : Snapshotable default { config := [0, 2, 5], configPF := rebuildPF default [0, 2, 5], history := [3], pristine := false, stable := true } :=
  ⟨by decide, by decide, by decide, rfl, rfl, rfl, rfl⟩

end UscxmlVerif.Properties.C14
