import UscxmlVerif.Proofs.Nest
/-!
# C13: monitor notifications are a well-nested account of execution

The notifications of the model are the tokens `XS.emit` records while the engine models run; in
the model every exit, entry, transition, executed element and dequeued event IS its pair of
tokens, so "reported exactly once and in execution order" holds by construction and is tied to
the compiled interpreter by the trace correspondence of checks C01/C13. What needs proof is the
shape of the token stream: it is accepted by the nesting automaton of `Spec.Nesting`
(every before has its after; exits, then transitions, then entries inside a micro-step bracket;
content only inside an exit, transition, entry or the completion; nothing else outside a
bracket; never two stable-configuration notices without an event or micro-step in between, and
`step` reports IDLE only when such a notice was the last thing that happened) -
for every chart, both engines, every sequence of API operations (steps, external events and internal
events from outside - a delayed send that fires - at any point, cancellation, reset, destruction), every length.
-/
namespace UscxmlVerif.Properties.C13
open UscxmlVerif UscxmlVerif.Model UscxmlVerif.Model.Large UscxmlVerif.Model.Api UscxmlVerif.Spec.Nesting UscxmlVerif.Proofs.Nest

theorem StepNest.refl (e : EState) : StepNest e e := fun stk hb => ⟨stk, hb, Nest.refl stk _⟩

theorem StepNest.trans {a b c : EState} (h1 : StepNest a b) (h2 : StepNest b c) : StepNest a c := by
  intro stk hb
  obtain ⟨s1, b1, n1⟩ := h1 stk hb
  obtain ⟨s2, b2, n2⟩ := h2 s1 b1
  exact ⟨s2, b2, Nest.trans n1 n2⟩

/-- changes of the observations that every stack lets pass, with the flags untouched -/
theorem stepNest_pass (e e' : EState) (hs : e'.spontaneous = e.spontaneous) (hst : e'.stable = e.stable) (hp : e'.pristine = e.pristine)
    (h : ∀ stk, Nest stk stk e.x e'.x) : StepNest e e' := by
  intro stk hb
  refine ⟨stk, ?_, h stk⟩
  refine ⟨by rw [hst, hp]; exact hb.1, ?_⟩
  rcases hb.2 with ⟨h0, h1⟩ | ⟨h0, h1, h2⟩
  · exact Or.inl ⟨h0, by rw [hst]; exact h1⟩
  · exact Or.inr ⟨h0, by rw [hs]; exact h1, by rw [hst, hp]; exact h2⟩

theorem engineStep_nest (eng : Engine) (c : Chart) (e : EState) : StepNestR e (engineStep eng c e) := by
  cases eng
  · exact large_step_nest c e
  · exact fast_step_nest c e

theorem stepOnce_nest (eng : Engine) (c : Chart) (a : Api) : StepNestR a.e ((stepOnce eng c a).1.e, (stepOnce eng c a).2) := by
  unfold stepOnce
  split
  · exact fun stk hb => ⟨stk, hb, Nest.refl stk _, fun h => by cases h⟩
  · exact engineStep_nest eng c a.e

/-- the automaton lets the result of `step` pass - IDLE only on the mark of a stable-configuration notice -/
theorem step_ret (r : Ret) (stk : List Frame) (h : r = .idle → stk = [.stable]) : stepTok stk (.ret r.toString) = some stk := by
  cases r
  case idle => rw [h rfl]; rfl
  all_goals rfl

theorem stepObserved_nest (eng : Engine) (c : Chart) (a : Api) : StepNest a.e (stepObserved eng c a).1.e := by
  intro stk hb
  obtain ⟨stk', hb', hn, hidle⟩ := stepOnce_nest eng c a stk hb
  refine ⟨stk', hb', ?_⟩
  unfold stepObserved
  exact Nest.trans hn (Nest.trans (nest_emit stk' stk' _ _ (step_ret _ stk' hidle)) (nest_emit stk' stk' _ _ rfl))

theorem quiesce_nest (eng : Engine) (c : Chart) (fuel : Nat) (a : Api) : StepNest a.e (quiesce eng c fuel a).e := by
  induction fuel generalizing a with
  | zero => exact stepNest_pass _ _ rfl rfl rfl (fun stk => nest_emit stk stk _ _ rfl)
  | succ n ih =>
    unfold quiesce
    simp only
    split
    · exact stepObserved_nest eng c a
    · exact StepNest.trans (stepObserved_nest eng c a) (ih _)

theorem applyApi_nest (eng : Engine) (c : Chart) (a : Api) (op : Op) : StepNest a.e (applyApi eng c a op).e := by
  cases op with
  | step => exact stepObserved_nest eng c a
  | quiesce => exact quiesce_nest eng c cap a
  | receive ev => exact stepNest_pass _ _ rfl rfl rfl (fun stk => nest_sendExt stk _ ev)
  | cancel =>
    refine stepNest_pass _ _ rfl rfl rfl (fun stk => ?_)
    exact Nest.trans (nest_emit stk stk _ _ rfl) (nest_sendExt stk _ "")
  | getState => exact stepNest_pass _ _ rfl rfl rfl (fun stk => nest_emit stk stk _ _ rfl)
  | inject ev => exact stepNest_pass _ _ rfl rfl rfl (fun stk => nest_raise stk _ ev)
  | reset => exact StepNest.refl _
  | destroy => exact StepNest.refl _

/-- all notifications of a session, oldest first -/
def toks (s : Session) : List Tok := (s.a.e.x.obs ++ s.past).reverse

/-- the automaton has accepted everything so far and rests on a stack the engine's flags agree with -/
def Good (s : Session) : Prop := ∃ stk, Base s.a.e stk ∧ runT [] (toks s) = some stk

theorem good_init : Good {} := ⟨[], ⟨fun _ => rfl, Or.inl ⟨rfl, rfl⟩⟩, rfl⟩

theorem good_apply (eng : Engine) (c : Chart) (s : Session) (op : Op) (h : Good s) : Good (apply eng c s op) := by
  obtain ⟨stk, hb, hr⟩ := h
  have live : ∀ op', Good { s with a := applyApi eng c s.a op' } := by
    intro op'
    obtain ⟨stk', hb', seg, hseg, hrun⟩ := applyApi_nest eng c s.a op' stk hb
    refine ⟨stk', hb', ?_⟩
    have : toks { s with a := applyApi eng c s.a op' } = toks s ++ seg := by
      simp only [toks, List.reverse_append]
      rw [hseg, List.append_assoc]
    rw [this, runT_append, hr]
    exact hrun
  have fresh : ∀ (n : String), Good { past := Tok.note n :: (s.a.e.x.obs ++ s.past), a := {} } := by
    intro n
    refine ⟨stk, ⟨fun _ => rfl, ?_⟩, ?_⟩
    · rcases hb.2 with ⟨h0, _⟩ | ⟨h0, _, _⟩
      · exact Or.inl ⟨h0, rfl⟩
      · exact Or.inr ⟨h0, rfl, Or.inr rfl⟩
    · have : toks { past := Tok.note n :: (s.a.e.x.obs ++ s.past), a := {} } = toks s ++ [Tok.note n] := by
        simp [toks]
      rw [this, runT_append, hr]
      rfl
  cases op with
  | reset => exact fresh "reset"
  | destroy => exact fresh "destroyed"
  | step => exact live .step
  | quiesce => exact live .quiesce
  | receive ev => exact live (.receive ev)
  | cancel => exact live .cancel
  | getState => exact live .getState
  | inject ev => exact live (.inject ev)

theorem good_run (eng : Engine) (c : Chart) (ops : List Op) : Good (run eng c ops) := by
  unfold run
  suffices h : ∀ s, Good s → Good (ops.foldl (apply eng c) s) from h {} good_init
  induction ops with
  | nil => intro s h; exact h
  | cons op rest ih => intro s h; exact ih _ (good_apply eng c s op h)

theorem checkT_of_runT (trace : List Tok) (stk stk' : List Frame) (i : Nat)
    (h : runT stk trace = some stk') (hb : stk' = [] ∨ stk' = [.stable]) : checkT trace stk i = none := by
  induction trace generalizing stk i with
  | nil =>
    simp only [runT, Option.some.injEq] at h
    subst h
    rcases hb with h | h <;> subst h <;> rfl
  | cons t rest ih =>
    simp only [runT] at h
    unfold checkT
    cases hs : stepTok stk t with
    | none => rw [hs] at h; cases h
    | some s1 =>
      rw [hs] at h
      exact ih s1 (i + 1) h

/-- **C13** (nesting, balance, phases, one stable-configuration notice per macrostep): for every chart, both
engines and every sequence of API operations the notifications observed so far are accepted by the nesting
automaton, which rests outside every bracket. -/
theorem notifications_well_nested (eng : Engine) (c : Chart) (ops : List Op) :
    wellNestedT (toks (run eng c ops)) = true := by
  obtain ⟨stk, hb, hr⟩ := good_run eng c ops
  unfold wellNestedT
  rw [checkT_of_runT _ [] stk 0 hr (by rcases hb.2 with ⟨h, _⟩ | ⟨h, _, _⟩ <;> simp [h])]
  rfl

/-- the log the correspondence check compares with the compiled interpreter is the rendering of these tokens -/
theorem log_is_rendering (s : Session) : s.log = (toks s).map Tok.toString := rfl

/-- every `before` of a micro-step, state exit/entry, transition or content element that the automaton accepted
has been closed when the automaton rests: a prefix that ends inside a bracket is rejected as a complete trace -/
example : wellNestedT [.bm, .bx "s", .ax "s", .bt "s.0", .bc 3, .log "l", .ac 3, .at "s.0", .be "t", .ae "t", .am, .st] = true := by decide
example : wellNestedT [.bm, .bx "s"] = false := by decide
example : wellNestedT [.bm, .be "t", .ae "t", .bx "s", .ax "s", .am] = false := by decide      -- entry before exit
example : wellNestedT [.bm, .am, .st, .st] = false := by decide                               -- two notices, one macrostep
example : wellNestedT [.bc 1, .ac 1] = false := by decide                                      -- content outside a bracket
example : wellNestedT [.bm, .am, .st, .ret "IDLE", .bpe "e", .ret "MICROSTEPPED", .ret "IDLE"] = false := by decide   -- a macrostep without its notice
example : wellNestedT [.bm, .am, .st, .ret "IDLE", .bpe "e", .ret "MICROSTEPPED", .st, .ret "MACROSTEPPED", .ret "IDLE"] = true := by decide

end UscxmlVerif.Properties.C13
