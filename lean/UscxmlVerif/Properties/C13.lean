import UscxmlVerif.Spec.Nesting
import UscxmlVerif.Model.Large
namespace UscxmlVerif.Properties.C13
end UscxmlVerif.Properties.C13
