import UscxmlVerif.Model.Exec
/-!
# C07 — errors become error events, never crashes

Statements about `Model.exec` / `execIf` / `execBlock` / `execBlocks`, the model of
`BasicContentExecutor::process` and of the micro-steppers' per-block `try { process } catch (...)`.
The correspondence suites of check C07 (`inject-*`) tie the model to the compiled interpreter
with failing elements injected at random positions of every kind of block, for the null, lua and
promela datamodels, in several concrete guises per datamodel.

What the model cannot exhibit — abnormal termination and out-of-bounds accesses of the C++ — is
explored by the sanitizer suites of the check (`soup-*`), not proved.
-/
namespace UscxmlVerif.Properties.C07
open UscxmlVerif UscxmlVerif.Model

def isErrorEvent (e : String) : Bool := e == "error.execution" || e == "error.communication"

/-- the events enqueued internally between two states of the executor -/
def newInternal (before after : XS) : List String := after.iq.drop before.iq.length

/-- the internal queue only grows at its end -/
def Extends (before after : XS) : Prop := ∃ added, after.iq = before.iq ++ added

theorem Extends.refl (x : XS) : Extends x x := ⟨[], by simp⟩

theorem Extends.trans {a b c : XS} (h1 : Extends a b) (h2 : Extends b c) : Extends a c := by
  obtain ⟨l1, e1⟩ := h1
  obtain ⟨l2, e2⟩ := h2
  exact ⟨l1 ++ l2, by rw [e2, e1, List.append_assoc]⟩

theorem newInternal_of_eq {a b : XS} {l : List String} (h : b.iq = a.iq ++ l) : newInternal a b = l := by
  simp [newInternal, h]

theorem emit_iq (x : XS) (o : Tok) : (x.emit o).iq = x.iq := rfl
theorem raise_iq (x : XS) (e : String) : (x.raise e).iq = x.iq ++ [e] := rfl
theorem sendExt_iq (x : XS) (e : String) : (x.sendExt e).iq = x.iq := rfl

theorem evalCond_extends (c : Chart) (cfg : List Nat) (x : XS) (cond : Cond) :
    Extends x (evalCond c cfg x cond).1 := by
  cases cond <;> simp only [evalCond] <;> first | exact Extends.refl x | exact ⟨["error.execution"], rfl⟩

/-- an error during the evaluation of a condition is reported and counts as `false` -/
theorem cond_error_is_event (c : Chart) (cfg : List Nat) (x : XS) :
    (evalCond c cfg x .err).2 = false ∧ newInternal x (evalCond c cfg x .err).1 = ["error.execution"] := by
  refine ⟨rfl, ?_⟩
  exact newInternal_of_eq (l := ["error.execution"]) rfl

/-- what a failing run leaves behind: the queue was extended and the extension contains an
error event -/
def Reported (before after : XS) : Prop :=
  ∃ added, after.iq = before.iq ++ added ∧ added.any isErrorEvent = true

theorem Reported.of_extends_left {a b c : XS} (h1 : Extends a b) (h2 : Reported b c) : Reported a c := by
  obtain ⟨l1, e1⟩ := h1
  obtain ⟨l2, e2, he⟩ := h2
  refine ⟨l1 ++ l2, by rw [e2, e1, List.append_assoc], ?_⟩
  simp only [List.any_append, he, Bool.or_true]

theorem Reported.of_extends_right {a b c : XS} (h1 : Reported a b) (h2 : Extends b c) : Reported a c := by
  obtain ⟨l1, e1, he⟩ := h1
  obtain ⟨l2, e2⟩ := h2
  refine ⟨l1 ++ l2, by rw [e2, e1, List.append_assoc], ?_⟩
  simp only [List.any_append, he, Bool.true_or]

/-- the shared case of `execIf` for an ordinary child element -/
theorem execIf_step (c : Chart) (cfg : List Nat) (e : Exec) (rest : List Exec) (b : Bool) (x : XS)
    (hdef : execIf c cfg (e :: rest) b x =
      if b then (if (exec c cfg e x).2 then execIf c cfg rest b (exec c cfg e x).1 else ((exec c cfg e x).1, false))
      else execIf c cfg rest b x)
    (he : Extends x (exec c cfg e x).1 ∧ ((exec c cfg e x).2 = false → Reported x (exec c cfg e x).1))
    (hrest : ∀ (b : Bool) (x : XS), Extends x (execIf c cfg rest b x).1 ∧
      ((execIf c cfg rest b x).2 = false → Reported x (execIf c cfg rest b x).1)) :
    Extends x (execIf c cfg (e :: rest) b x).1 ∧
      ((execIf c cfg (e :: rest) b x).2 = false → Reported x (execIf c cfg (e :: rest) b x).1) := by
  rw [hdef]
  cases b with
  | false =>
    simp only [Bool.false_eq_true, ↓reduceIte]
    exact hrest false x
  | true =>
    simp only [↓reduceIte]
    cases hok : (exec c cfg e x).2 with
    | true =>
      simp only [↓reduceIte]
      have hr := hrest true (exec c cfg e x).1
      exact ⟨Extends.trans he.1 hr.1, fun hf => Reported.of_extends_left he.1 (hr.2 hf)⟩
    | false =>
      simp only [Bool.false_eq_true, ↓reduceIte]
      exact ⟨he.1, fun _ => he.2 hok⟩

mutual
/-- executing an element never removes or reorders queued internal events, and a failure
(`false`: the enclosing block is aborted) always leaves an error event behind -/
theorem exec_spec (c : Chart) (cfg : List Nat) : ∀ (e : Exec) (x : XS),
    Extends x (exec c cfg e x).1 ∧ ((exec c cfg e x).2 = false → Reported x (exec c cfg e x).1)
  | .raise uv name, x => by
    simp only [exec]
    exact ⟨⟨[name], rfl⟩, by intro h; cases h⟩
  | .log uv label, x => by
    simp only [exec]
    exact ⟨⟨[], by simp [emit_iq]⟩, by intro h; cases h⟩
  | .send uv name target, x => by
    simp only [exec]
    refine ⟨?_, by intro h; cases h⟩
    by_cases ht : target = "#_internal"
    · exact ⟨[name], by simp [ht, emit_iq, raise_iq]⟩
    · exact ⟨[], by simp [ht, emit_iq, sendExt_iq]⟩
  | .fail uv comm, x => by
    simp only [exec]
    refine ⟨⟨[if comm then "error.communication" else "error.execution"], rfl⟩, fun _ => ?_⟩
    refine ⟨[if comm then "error.communication" else "error.execution"], rfl, ?_⟩
    cases comm <;> simp [isErrorEvent]
  | .assign uv v k, x => by
    simp only [exec]
    exact ⟨⟨[], by simp [emit_iq]⟩, by intro h; cases h⟩
  | .incr uv v, x => by
    simp only [exec]
    exact ⟨⟨[], by simp [emit_iq]⟩, by intro h; cases h⟩
  | .ite uv cond children, x => by
    simp only [exec]
    have hc := evalCond_extends c cfg (x.emit (.bc uv)) cond
    have hi := execIf_spec c cfg children (evalCond c cfg (x.emit (.bc uv)) cond).2
      (evalCond c cfg (x.emit (.bc uv)) cond).1
    have h0 : Extends x (x.emit (.bc uv)) := ⟨[], by simp [emit_iq]⟩
    refine ⟨?_, ?_⟩
    · have := Extends.trans h0 (Extends.trans hc hi.1)
      obtain ⟨l, hl⟩ := this
      exact ⟨l, by rw [emit_iq]; exact hl⟩
    · intro hf
      have := Reported.of_extends_left (Extends.trans h0 hc) (hi.2 hf)
      obtain ⟨l, hl, he⟩ := this
      exact ⟨l, by rw [emit_iq]; exact hl, he⟩
  | .elseif _, x => by
    simp only [exec]
    exact ⟨Extends.refl x, by intro h; cases h⟩
  | .else_, x => by
    simp only [exec]
    exact ⟨Extends.refl x, by intro h; cases h⟩

theorem execIf_spec (c : Chart) (cfg : List Nat) : ∀ (es : List Exec) (b : Bool) (x : XS),
    Extends x (execIf c cfg es b x).1 ∧ ((execIf c cfg es b x).2 = false → Reported x (execIf c cfg es b x).1)
  | [], b, x => by
    simp only [execIf]
    exact ⟨Extends.refl x, by intro h; cases h⟩
  | .elseif cond :: rest, b, x => by
    simp only [execIf]
    cases b with
    | true => exact ⟨Extends.refl x, by intro h; cases h⟩
    | false =>
      simp only [Bool.false_eq_true, ↓reduceIte]
      have hc := evalCond_extends c cfg x cond
      have hr := execIf_spec c cfg rest (evalCond c cfg x cond).2 (evalCond c cfg x cond).1
      exact ⟨Extends.trans hc hr.1, fun hf => Reported.of_extends_left hc (hr.2 hf)⟩
  | .else_ :: rest, b, x => by
    simp only [execIf]
    cases b with
    | true => exact ⟨Extends.refl x, by intro h; cases h⟩
    | false =>
      simp only [Bool.false_eq_true, ↓reduceIte]
      exact execIf_spec c cfg rest true x
  | .raise uv name :: rest, b, x =>
    execIf_step c cfg (.raise uv name) rest b x (by simp [execIf]) (exec_spec c cfg (.raise uv name) x) (fun b x => execIf_spec c cfg rest b x)
  | .log uv l :: rest, b, x =>
    execIf_step c cfg (.log uv l) rest b x (by simp [execIf]) (exec_spec c cfg (.log uv l) x) (fun b x => execIf_spec c cfg rest b x)
  | .send uv n t :: rest, b, x =>
    execIf_step c cfg (.send uv n t) rest b x (by simp [execIf]) (exec_spec c cfg (.send uv n t) x) (fun b x => execIf_spec c cfg rest b x)
  | .fail uv k :: rest, b, x =>
    execIf_step c cfg (.fail uv k) rest b x (by simp [execIf]) (exec_spec c cfg (.fail uv k) x) (fun b x => execIf_spec c cfg rest b x)
  | .assign uv v k :: rest, b, x =>
    execIf_step c cfg (.assign uv v k) rest b x (by simp [execIf]) (exec_spec c cfg (.assign uv v k) x) (fun b x => execIf_spec c cfg rest b x)
  | .incr uv v :: rest, b, x =>
    execIf_step c cfg (.incr uv v) rest b x (by simp [execIf]) (exec_spec c cfg (.incr uv v) x) (fun b x => execIf_spec c cfg rest b x)
  | .ite uv cd ch :: rest, b, x =>
    execIf_step c cfg (.ite uv cd ch) rest b x (by simp [execIf]) (exec_spec c cfg (.ite uv cd ch) x) (fun b x => execIf_spec c cfg rest b x)

end

/-- every element of `es` succeeds when run in sequence from `x` -/
def allOk (c : Chart) (cfg : List Nat) : List Exec → XS → Bool
  | [], _ => true
  | e :: es, x => (exec c cfg e x).2 && allOk c cfg es (exec c cfg e x).1

/-- running all elements in sequence, ignoring results -/
def runAll (c : Chart) (cfg : List Nat) : List Exec → XS → XS
  | [], x => x
  | e :: es, x => runAll c cfg es (exec c cfg e x).1

/-- **only the remainder of the block is skipped**: the elements before the failing one are
executed in full, the failing element runs (and reports, `failing_element_reports`), and
whatever follows it in the block has no effect at all -/
theorem block_skips_exactly_the_remainder (c : Chart) (cfg : List Nat) (pre : List Exec) (e : Exec)
    (post : List Exec) (x : XS) (hpre : allOk c cfg pre x = true)
    (hfail : (exec c cfg e (runAll c cfg pre x)).2 = false) :
    execBlock c cfg (pre ++ e :: post) x = (exec c cfg e (runAll c cfg pre x)).1 := by
  induction pre generalizing x with
  | nil =>
    simp only [List.nil_append, execBlock, runAll] at *
    rw [hfail]; simp
  | cons p ps ih =>
    simp only [allOk, Bool.and_eq_true] at hpre
    simp only [List.cons_append, execBlock, runAll]
    rw [hpre.1]
    simp only [↓reduceIte]
    exact ih _ hpre.2 hfail

/-- a block without a failing element is executed to its end -/
theorem block_without_failure_runs_all (c : Chart) (cfg : List Nat) (es : List Exec) (x : XS)
    (h : allOk c cfg es x = true) : execBlock c cfg es x = runAll c cfg es x := by
  induction es generalizing x with
  | nil => rfl
  | cons e es ih =>
    simp only [allOk, Bool.and_eq_true] at h
    simp only [execBlock, runAll, h.1, ↓reduceIte]
    exact ih _ h.2

/-- **a failing element places an error event in the internal queue** (behind everything that
was queued before, which stays in place) -/
theorem failing_element_reports (c : Chart) (cfg : List Nat) (e : Exec) (x : XS)
    (h : (exec c cfg e x).2 = false) :
    ∃ added, (exec c cfg e x).1.iq = x.iq ++ added ∧ added.any isErrorEvent = true :=
  (exec_spec c cfg e x).2 h

/-- the two primitive failures and their events -/
theorem fail_element (c : Chart) (cfg : List Nat) (uv : Nat) (comm : Bool) (x : XS) :
    (exec c cfg (.fail uv comm) x).2 = false ∧
    newInternal x (exec c cfg (.fail uv comm) x).1 = [if comm then "error.communication" else "error.execution"] := by
  refine ⟨rfl, ?_⟩
  exact newInternal_of_eq (l := [if comm then "error.communication" else "error.execution"]) rfl

theorem execBlock_extends (c : Chart) (cfg : List Nat) (es : List Exec) (x : XS) :
    Extends x (execBlock c cfg es x) := by
  induction es generalizing x with
  | nil => exact Extends.refl x
  | cons e es ih =>
    simp only [execBlock]
    have he := (exec_spec c cfg e x).1
    cases (exec c cfg e x).2 with
    | true => simp only [↓reduceIte]; exact Extends.trans he (ih _)
    | false => simp only [Bool.false_eq_true, ↓reduceIte]; exact he

/-- **the interpreter goes on**: the blocks after an aborted one are executed as if nothing had
happened, starting from the state the aborted block left (`execBlocks` is the micro-steppers'
loop over the `<onentry>`/`<onexit>` blocks of a state) -/
theorem next_block_runs (c : Chart) (cfg : List Nat) (b : List Exec) (bs : List (List Exec)) (x : XS) :
    execBlocks c cfg (b :: bs) x = execBlocks c cfg bs (execBlock c cfg b x) := rfl

/-- no queued internal event — in particular no error event — is lost while content runs -/
theorem execBlocks_extends (c : Chart) (cfg : List Nat) (bs : List (List Exec)) (x : XS) :
    Extends x (execBlocks c cfg bs x) := by
  induction bs generalizing x with
  | nil => exact Extends.refl x
  | cons b bs ih =>
    rw [next_block_runs]
    exact Extends.trans (execBlock_extends c cfg b x) (ih _)

/-- a block that was aborted has reported: an error event is in the queue afterwards -/
theorem aborted_block_reports (c : Chart) (cfg : List Nat) (pre : List Exec) (e : Exec)
    (post : List Exec) (x : XS) (hpre : allOk c cfg pre x = true)
    (hfail : (exec c cfg e (runAll c cfg pre x)).2 = false) :
    ∃ added, (execBlock c cfg (pre ++ e :: post) x).iq = x.iq ++ added ∧ added.any isErrorEvent = true := by
  rw [block_skips_exactly_the_remainder c cfg pre e post x hpre hfail]
  have hx : Extends x (runAll c cfg pre x) := by
    rw [← block_without_failure_runs_all c cfg pre x hpre]
    exact execBlock_extends c cfg pre x
  exact Reported.of_extends_left hx ((exec_spec c cfg e _).2 hfail)

/-! non-vacuity: a concrete block with a failing element in the middle, nested in an `<if>` -/
def demoChart : Chart := default
def demoBlock : List Exec :=
  [.raise 1 "a", .ite 2 .none [.raise 3 "b", .fail 4 false, .raise 5 "never"], .raise 6 "never"]

example : allOk demoChart [] [.raise 1 "a"] {} = true := by decide
example : (execBlock demoChart [] demoBlock {}).iq = ["a", "b", "error.execution"] := by decide
example : (execBlocks demoChart [] [demoBlock, [.raise 7 "next"]] {}).iq = ["a", "b", "error.execution", "next"] := by
  decide

end UscxmlVerif.Properties.C07
