import UscxmlVerif.Proofs.NameMatch
import UscxmlVerif.Proofs.TrieSpec
/-!
# C12 — Event descriptors match exactly as the Recommendation prescribes

Property theorems only. `Model.NameMatch.nameMatch` is the transliteration of
`uscxml::nameMatch` (and of the copy in the generated-C scaffolding); the correspondence
suite `namematch` ties it to the compiled code. `Spec.Descriptor.listMatches` is
Recommendation 3.12.1.
-/
namespace UscxmlVerif.Properties.C12
open UscxmlVerif UscxmlVerif.Model.NameMatch UscxmlVerif.Spec.Descriptor UscxmlVerif.Proofs.NameMatch

/-- **Scanner correctness, every byte string** (no well-formedness hypothesis): the index
arithmetic of the `for` loop visits exactly the white-space separated descriptors. -/
theorem scanner_visits_every_descriptor (ds n : Bytes) :
    nameMatch ds n = (!ds.isEmpty && !n.isEmpty &&
      (ds == n || (descriptors ds).any (tryDesc · n))) :=
  nameMatch_eq_tokens ds n

/-- **C12, full statement**: for every well-formed descriptor list and event name the code's
matcher is the relation of Recommendation 3.12.1. -/
theorem nameMatch_eq_spec (ds n : Bytes) (hds : wfDescList ds = true) (hn : wfName n = true) :
    nameMatch ds n = listMatches ds n := by
  rw [nameMatch_eq_tokens]
  unfold wfDescList at hds
  simp only [Bool.and_eq_true] at hds
  obtain ⟨⟨hne, hall⟩, _⟩ := hds
  have hds_ne : ds.isEmpty = false := by
    cases ds with
    | nil => simp [descriptors, splitDrop] at hne
    | cons _ _ => rfl
  have hn_ne : n.isEmpty = false := by
    have := wfName_ne_nil n hn
    cases n with
    | nil => exact absurd rfl this
    | cons _ _ => rfl
  simp only [hds_ne, hn_ne, Bool.not_false, Bool.true_and]
  have hany : (descriptors ds).any (tryDesc · n) = (descriptors ds).any (descMatches · n) := by
    have : ∀ l : List Bytes, l.all wfDesc = true → l.any (tryDesc · n) = l.any (descMatches · n) := by
      intro l
      induction l with
      | nil => intro _; rfl
      | cons d t ih =>
        intro h
        simp only [List.all_cons, Bool.and_eq_true] at h
        simp only [List.any_cons, ih h.2]
        congr 1
        unfold tryDesc
        have hd : d.isEmpty = false := by
          cases d with
          | nil => simp [wfDesc, stripSuffix, wfName, tokens, wfToken] at h
          | cons _ _ => rfl
        rw [hd, matchOne_eq_descMatches d n h.1]; rfl
    exact this _ hall
  unfold listMatches
  by_cases heq : (ds == n) = true
  · have : ds = n := by simpa using heq
    subst this
    simp [descriptors_of_wfName ds hn, descMatches_self ds hn]
  · simp only [heq, Bool.false_or, hany]

/-- non-vacuity: a concrete multi-descriptor list and name meet the hypotheses -/
example : wfDescList ([101, 114, 114, 111, 114, 46, 42, 32, 100, 111, 110, 101, 46, 115, 116, 97, 116, 101, 46, 115, 49, 32, 120, 9, 102, 111, 111, 46] /- error.* done.state.s1 x<TAB>foo. -/) = true ∧
    wfName ([100, 111, 110, 101, 46, 115, 116, 97, 116, 101, 46, 115, 49, 46, 115, 117, 98] /- done.state.s1.sub -/) = true ∧
    nameMatch ([101, 114, 114, 111, 114, 46, 42, 32, 100, 111, 110, 101, 46, 115, 116, 97, 116, 101, 46, 115, 49, 32, 120, 9, 102, 111, 111, 46] /- error.* done.state.s1 x<TAB>foo. -/) ([100, 111, 110, 101, 46, 115, 116, 97, 116, 101, 46, 115, 49, 46, 115, 117, 98] /- done.state.s1.sub -/) = true := by
  decide

/-- the one-character descriptors that the code before the `fix:` commits lost -/
example : nameMatch ([97, 32, 98] /- a b -/) ([98] /- b -/) = true := by decide
example : nameMatch ([97, 32, 98] /- a b -/) ([97] /- a -/) = true := by decide
/-- matching is case sensitive -/
example : nameMatch ([70, 111, 111] /- Foo -/) ([102, 111, 111] /- foo -/) = false := by decide

/-! ## the static resolution of descriptors in the Promela and VHDL back-ends -/

/-- **the transpilers' trie answers prefix queries exactly**: for every list of words and every prefix, `getWordsWithPrefix` on
the trie `addWord` built holds exactly - for every word whose (non-empty, `.`-separated) tokens extend those of the prefix - the
first word that was added with those tokens -/
theorem trie_answers_prefix_queries (ws : List Bytes) (p v : Bytes) :
    v ∈ Model.Trie.query (Model.Trie.build ws) p ↔
      ∃ w ∈ ws, (Model.Trie.toks p).isPrefixOf (Model.Trie.toks w) = true ∧
        ws.find? (fun u => Model.Trie.toks u == Model.Trie.toks w) = some v :=
  Proofs.TrieSpec.query_build ws p v

/-- **what the back-ends resolve statically is the Recommendation's matching**: for well-formed, pairwise distinct event names and
a well-formed descriptor other than `*`, the names listed for the descriptor are exactly the names it matches (3.12.1) -/
theorem static_resolution_is_spec (ws : List Bytes) (hwf : ∀ n ∈ ws, wfName n = true)
    (hd : ∀ a ∈ ws, ∀ b ∈ ws, Model.Trie.toks a = Model.Trie.toks b → a = b) (d : Bytes) (hstar : d ≠ [42])
    (hwd : wfName (stripSuffix d) = true) (n : Bytes) :
    n ∈ Model.Trie.query (Model.Trie.build ws) (stripSuffix d) ↔ n ∈ ws ∧ descMatches d n = true :=
  Proofs.TrieSpec.trie_resolves_descriptor ws hwf hd d hstar hwd n

/-- the hypotheses are met, and the answer is the expected one, on concrete names: `a.b`, `a.c`, `b` and the descriptor `a.*` -/
example : Model.Trie.query (Model.Trie.build [[97, 46, 98], [97, 46, 99], [98]]) (stripSuffix [97, 46, 42]) = [[97, 46, 98], [97, 46, 99]] := by decide
example : wfName [97, 46, 98] = true ∧ wfName (stripSuffix [97, 46, 42]) = true ∧ descMatches [97, 46, 42] [97, 46, 98] = true ∧
    descMatches [97, 46, 42] [98] = false := by decide

end UscxmlVerif.Properties.C12
