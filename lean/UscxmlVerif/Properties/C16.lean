import UscxmlVerif.Model.LuaMarshal
/-!
# C16 — values survive the trip through the Lua datamodel

`Model.LuaMarshal.toLua` / `ofLua` model `getDataAsLua` / `getLuaAsData`; the correspondence
suite `lua` ties them to the compiled datamodel for values entering by assignment, as event
payload and as `<send>` parameter.
-/
namespace UscxmlVerif.Properties.C16
open UscxmlVerif UscxmlVerif.Model.Json UscxmlVerif.Model.LuaMarshal

/-- `k` is smaller than every key of `ks` -/
def allGt (k : Bytes) (ks : List Bytes) : Bool := ks.all (fun k' => bytesLt k k')

/-- keys as a `std::map` holds them: strictly ascending -/
def sortedKeys : List Bytes → Bool
  | [] => true
  | k :: ks => allGt k ks && sortedKeys ks

mutual
/-- the values "Lua can represent unambiguously" of the property -/
def unamb : D → Bool
  | .atom .verbatim _ => true
  | .atom .interpreted s => canonInt s || s == bTrue || s == bFalse
  | .arr items => !items.isEmpty && unambs items
  | .obj keys vals =>
    !keys.isEmpty && keys.length == vals.length && sortedKeys keys && keys.all (fun k => !numKey k) && unambs vals
def unambs : List D → Bool
  | [] => true
  | d :: ds => unamb d && unambs ds
end

theorem bytesLt_irrefl : ∀ a : Bytes, bytesLt a a = false := by
  intro a
  induction a with
  | nil => rfl
  | cons x xs ih => simp [bytesLt, ih]

theorem bytesLt_asymm : ∀ a b : Bytes, bytesLt a b = true → bytesLt b a = false := by
  intro a
  induction a with
  | nil => intro b h; cases b <;> simp [bytesLt] at h ⊢
  | cons x xs ih =>
    intro b h
    cases b with
    | nil => simp [bytesLt] at h
    | cons y ys =>
      simp only [bytesLt, Bool.or_eq_true, Bool.and_eq_true, decide_eq_true_eq, beq_iff_eq] at h ⊢
      rcases h with h | ⟨h1, h2⟩
      · have h' : ¬ y < x := by
          intro hyx; exact absurd (UInt8.lt_trans h hyx) (UInt8.lt_irrefl x)
        have hne : ¬ y = x := by intro e; subst e; exact absurd h (UInt8.lt_irrefl _)
        simp [h', hne]
      · subst h1
        simp [UInt8.lt_irrefl, ih ys h2]

theorem ne_of_bytesLt {a b : Bytes} (h : bytesLt a b = true) : a ≠ b := by
  intro e; subst e; rw [bytesLt_irrefl] at h; exact absurd h (by decide)

/-- inserting a key larger than all present ones appends -/
theorem insertKV_append (k : Bytes) (v : D) : ∀ (ks : List Bytes) (vs : List D), ks.length = vs.length →
    (∀ k' ∈ ks, bytesLt k' k = true) → insertKV k v ks vs = (ks ++ [k], vs ++ [v]) := by
  intro ks
  induction ks with
  | nil => intro vs hl _; cases vs <;> simp_all [insertKV]
  | cons k' ks ih =>
    intro vs hl h
    cases vs with
    | nil => simp at hl
    | cons v' vs =>
      have hk' := h k' (by simp)
      have h1 : (k == k') = false := by
        simp; exact fun e => (ne_of_bytesLt hk') e.symm
      have h2 : bytesLt k k' = false := bytesLt_asymm k' k hk'
      simp only [insertKV, h1, h2, Bool.false_eq_true, if_false]
      rw [ih vs (by simpa using hl) (fun x hx => h x (by simp [hx]))]
      simp

theorem insertIdx_append (n : Nat) (v : D) : ∀ l : List (Nat × D), (∀ p ∈ l, p.1 < n) →
    insertIdx n v l = l ++ [(n, v)] := by
  intro l
  induction l with
  | nil => intro _; rfl
  | cons p rest ih =>
    intro h
    obtain ⟨m, w⟩ := p
    have hm : m < n := h (m, w) (by simp)
    have h1 : (n == m) = false := by simp; omega
    have h2 : ¬ n < m := by omega
    simp only [insertIdx, h1, h2, Bool.false_eq_true, if_false]
    rw [ih (fun q hq => h q (by simp [hq]))]
    simp

/-- the index/value pairs `getLuaAsData` collects for `append`ed items -/
def idxPairs (start : Nat) : List D → List (Nat × D)
  | [] => []
  | d :: ds => (start + 1, d) :: idxPairs (start + 1) ds

theorem buildArray_idxPairs : ∀ (ds : List D) (k : Nat), buildArray (idxPairs k ds) k = ds := by
  intro ds
  induction ds with
  | nil => intro k; rfl
  | cons d ds ih =>
    intro k
    simp only [idxPairs, buildArray]
    have : k + 1 - (k + 1) = 0 := by omega
    rw [this]
    simp only [List.replicate_zero, List.nil_append, Nat.max_self]
    rw [ih (k + 1)]

theorem foldl_insertIdx : ∀ (ds : List D) (k : Nat) (acc : List (Nat × D)), (∀ p ∈ acc, p.1 ≤ k) →
    ((idxKeysN k ds.length).zip ds).foldl arrStep acc = acc ++ idxPairs k ds := by
  intro ds
  induction ds with
  | nil => intro k acc _; simp [idxKeysN, idxPairs]
  | cons d ds ih =>
    intro k acc h
    simp only [List.length_cons, idxKeysN, List.zip_cons_cons, List.foldl_cons, idxPairs, arrStep]
    rw [insertIdx_append (k + 1) d acc (fun p hp => by have := h p hp; omega)]
    rw [ih (k + 1) (acc ++ [(k + 1, d)]) (by
      intro p hp
      rcases List.mem_append.mp hp with hp | hp
      · have := h p hp; omega
      · simp at hp; subst hp; simp)]
    simp

theorem foldl_insertKV : ∀ (keys : List Bytes) (ds : List D) (accK : List Bytes) (accV : List D),
    keys.length = ds.length → accK.length = accV.length → sortedKeys keys = true →
    (∀ a ∈ accK, ∀ k ∈ keys, bytesLt a k = true) →
    ((keys.map LKey.str).zip ds).foldl mapStep (accK, accV) = (accK ++ keys, accV ++ ds) := by
  intro keys
  induction keys with
  | nil => intro ds accK accV hl _ _ _; cases ds <;> simp_all
  | cons k ks ih =>
    intro ds accK accV hl hacc hs h
    cases ds with
    | nil => simp at hl
    | cons d ds =>
      simp only [sortedKeys, Bool.and_eq_true, allGt, List.all_eq_true] at hs
      simp only [List.map_cons, List.zip_cons_cons, List.foldl_cons, mapStep, keyStr]
      rw [insertKV_append k d accK accV hacc (fun a ha => h a ha k (by simp))]
      rw [ih ds (accK ++ [k]) (accV ++ [d]) (by simpa using hl) (by simp [hacc]) hs.2 (by
        intro a ha x hx
        rcases List.mem_append.mp ha with ha | ha
        · exact h a ha x (by simp [hx])
        · simp at ha; subst ha; exact hs.1 x hx)]
      simp

theorem canonInt_ne_nil {s : Bytes} (h : canonInt s = true) : s.isEmpty = false := by
  cases s with
  | nil => simp [canonInt, posCanon] at h
  | cons _ _ => rfl

theorem toLuas_length : ∀ ds : List D, (toLuas ds).length = ds.length := by
  intro ds; induction ds with
  | nil => rfl
  | cons d ds ih => simp [toLuas, ih]

theorem ofLuas_length : ∀ vs : List LVal, (ofLuas vs).length = vs.length := by
  intro vs; induction vs with
  | nil => rfl
  | cons v vs ih => simp [ofLuas, ih]

theorem idxKeysN_all_int : ∀ n k, (idxKeysN k n).all LKey.isInt = true := by
  intro n; induction n with
  | zero => intro k; rfl
  | succ n ih => intro k; simp [idxKeysN, ih, LKey.isInt]

theorem idxKeysN_length : ∀ n k, (idxKeysN k n).length = n := by
  intro n; induction n with
  | zero => intro k; rfl
  | succ n ih => intro k; simp [idxKeysN, ih]

mutual
/-- **C16, round trip**: every unambiguous value — strings (any bytes, also empty, number-like or
looking like Lua source), canonical integers, booleans, arrays of any length, maps with
non-numeric keys, arbitrarily nested — is read back from the Lua datamodel unchanged -/
theorem lua_roundtrip : ∀ d : D, unamb d = true → ofLua (toLua d) = d
  | .atom .verbatim s, _ => by simp [toLua, ofLua]
  | .atom .interpreted s, h => by
    simp only [unamb, Bool.or_eq_true] at h
    rcases h with (h | h) | h
    · simp [toLua, canonInt_ne_nil h, h, ofLua]
    · have : s = bTrue := by simpa using h
      subst this; simp [toLua, ofLua, bTrue, canonInt, posCanon, isDigit]
    · have : s = bFalse := by simpa using h
      subst this; simp [toLua, ofLua, bFalse, bTrue, canonInt, posCanon, isDigit]
  | .arr items, h => by
    simp only [unamb, Bool.and_eq_true, Bool.not_eq_true'] at h
    obtain ⟨hne, hu⟩ := h
    have hrt := lua_roundtrips items hu
    have hk : (idxKeysN 0 items.length).isEmpty = false := by
      cases items with
      | nil => simp at hne
      | cons _ _ => simp [idxKeysN]
    simp only [toLua, hne, Bool.false_eq_true, if_false, ofLua, hk, idxKeysN_all_int, if_true, hrt]
    rw [foldl_insertIdx items 0 [] (by simp)]
    simp [buildArray_idxPairs]
  | .obj keys vals, h => by
    simp only [unamb, Bool.and_eq_true, Bool.not_eq_true', beq_iff_eq] at h
    obtain ⟨⟨⟨⟨hne, hlen⟩, hs⟩, hnum⟩, hu⟩ := h
    have hrt := lua_roundtrips vals hu
    have hmap : keys.map (fun k => if numKey k then LKey.int (leadingNat k) else LKey.str k) = keys.map LKey.str := by
      apply List.map_congr_left
      intro k hk
      have := List.all_eq_true.mp hnum k hk
      simp at this
      simp [this]
    obtain ⟨k0, krest, hk0⟩ : ∃ k0 krest, keys = k0 :: krest := by
      cases keys with
      | nil => simp at hne
      | cons a b => exact ⟨a, b, rfl⟩
    have hk : (keys.map LKey.str).isEmpty = false := by simp [hk0]
    have hnotall : (keys.map LKey.str).all LKey.isInt = false := by
      simp [hk0, LKey.isInt]
    simp only [toLua, hne, Bool.false_eq_true, if_false, hmap, ofLua, hk, hnotall, hrt]
    rw [foldl_insertKV keys vals [] [] hlen rfl hs (by simp)]
    simp
theorem lua_roundtrips : ∀ ds : List D, unambs ds = true → ofLuas (toLuas ds) = ds
  | [], _ => rfl
  | d :: ds, h => by
    simp only [unambs, Bool.and_eq_true] at h
    simp [toLuas, ofLuas, lua_roundtrip d h.1, lua_roundtrips ds h.2]
end

/-- a value that takes the trip twice (a `<send>` parameter: Lua → event → Lua) -/
theorem lua_roundtrip_twice (d : D) (h : unamb d = true) : ofLua (toLua (ofLua (toLua d))) = d := by
  rw [lua_roundtrip d h, lua_roundtrip d h]

/-- non-vacuity: a nested value with an empty string, number-like strings, a 12-element array and
a map is unambiguous -/
example : unamb (.obj [[97], [107, 49]]
    [.arr [.atom .verbatim [], .atom .verbatim [53], .atom .interpreted [45, 49], .atom .interpreted bTrue,
           .atom .verbatim [], .atom .verbatim [], .atom .verbatim [], .atom .verbatim [], .atom .verbatim [],
           .atom .verbatim [], .atom .verbatim [], .atom .interpreted [49, 50]],
     .atom .verbatim [111, 115, 46, 101, 120, 105, 116, 40, 41]]) = true := by decide

end UscxmlVerif.Properties.C16
