import UscxmlVerif.Model.Json
import UscxmlVerif.Proofs.JsonBounds
/-!
# C15 — Data ↔ JSON conversion is lossless and its parser robust

`Model.Json` is the model of `Data::toJSON/fromJSON/jsonEscape/jsonUnescape` and of jsmn; the
correspondence suite `json` ties it to the compiled code (plain and ASan+UBSan builds).
-/
namespace UscxmlVerif.Properties.C15
open UscxmlVerif UscxmlVerif.Model.Json

theorem unescAux_escByte (b : UInt8) (rest : Bytes) :
    jsonUnescapeAux (escByte b ++ rest) false = b :: jsonUnescapeAux rest false := by
  unfold escByte
  split
  · rename_i h; have : b = 9 := by simpa using h
    subst this; simp [jsonUnescapeAux, unescByte]
  split
  · rename_i h; have : b = 8 := by simpa using h
    subst this; simp [jsonUnescapeAux, unescByte]
  split
  · rename_i h; have : b = 12 := by simpa using h
    subst this; simp [jsonUnescapeAux, unescByte]
  split
  · rename_i h; have : b = 10 := by simpa using h
    subst this; simp [jsonUnescapeAux, unescByte]
  split
  · rename_i h; have : b = 13 := by simpa using h
    subst this; simp [jsonUnescapeAux, unescByte]
  split
  · rename_i h; have : b = 34 := by simpa using h
    subst this; simp [jsonUnescapeAux, unescByte]
  split
  · rename_i h; have : b = 92 := by simpa using h
    subst this; simp [jsonUnescapeAux, unescByte]
  · rename_i h1 h2 h3 h4 h5 h6 h7
    have : (b == 92) = false := by simpa using h7
    simp [jsonUnescapeAux, this]

/-- **escaping is invertible, every byte string** (strings and keys survive the escape /
unescape pair whatever bytes they contain) -/
theorem unescape_escape (s : Bytes) : jsonUnescape (jsonEscape s) = s := by
  unfold jsonUnescape jsonEscape
  induction s with
  | nil => rfl
  | cons b rest ih =>
    simp only [List.flatMap_cons]
    rw [unescAux_escByte, ih]

/-- the escaped text never contains a bare quote: every `"` is preceded by a backslash that is
itself not escaped, so jsmn's string scan ends exactly at the closing quote -/
theorem strScan_escape (s rest : Bytes) (hs : ∀ b ∈ s, b ≠ 0) (pre : Bytes) :
    ∀ fuel, (jsonEscape s).length < fuel →
    strScan (pre ++ jsonEscape s ++ 34 :: rest) fuel pre.length = .ok (pre.length + (jsonEscape s).length) := by
  induction s generalizing pre with
  | nil =>
    intro fuel hf
    cases fuel with
    | zero => simp at hf
    | succ f =>
      simp [jsonEscape, strScan, at0]
  | cons b t ih =>
    intro fuel hf
    have hb : b ≠ 0 := hs b (by simp)
    have ht : ∀ x ∈ t, x ≠ 0 := fun x hx => hs x (by simp [hx])
    cases fuel with
    | zero => simp at hf
    | succ f =>
      have hlen : (jsonEscape (b :: t)).length = (escByte b).length + (jsonEscape t).length := by
        simp [jsonEscape]
      -- two shapes of escByte b
      by_cases hsp : b = 9 ∨ b = 8 ∨ b = 12 ∨ b = 10 ∨ b = 13 ∨ b = 34 ∨ b = 92
      · -- two characters: backslash + letter
        obtain ⟨c, hc, hcok⟩ : ∃ c, escByte b = [92, c] ∧
            (c == 34 || c == 47 || c == 92 || c == 98 || c == 102 || c == 114 || c == 110 || c == 116 || c == 117) = true := by
          rcases hsp with h | h | h | h | h | h | h <;> subst h <;> simp [escByte]
        have hE : jsonEscape (b :: t) = 92 :: c :: jsonEscape t := by simp [jsonEscape, hc]
        rw [hE] at hf ⊢
        have e1 : pre ++ (92 :: c :: jsonEscape t) ++ 34 :: rest = (pre ++ [92, c]) ++ jsonEscape t ++ 34 :: rest := by simp
        unfold strScan
        have h0 : at0 (pre ++ (92 :: c :: jsonEscape t) ++ 34 :: rest) pre.length = 92 := by simp [at0]
        have h1 : at0 (pre ++ (92 :: c :: jsonEscape t) ++ 34 :: rest) (pre.length + 1) = c := by
          simp [at0, List.getD, List.getElem?_append_right]
        simp only [h0, h1, hcok]
        simp only [show ((92 : UInt8) == 0) = false by decide, show ((92 : UInt8) == 34) = false by decide,
          show ((92 : UInt8) == 92) = true by decide, Bool.false_eq_true, if_false, if_true]
        rw [e1]
        have := ih ht (pre ++ [92, c]) f (by simp at hf ⊢; omega)
        simp only [List.length_append, List.length_cons, List.length_nil] at this
        rw [this]
        simp; omega
      · -- the byte itself
        have hc : escByte b = [b] := by
          simp only [not_or] at hsp
          obtain ⟨h1, h2, h3, h4, h5, h6, h7⟩ := hsp
          simp [escByte, h1, h2, h3, h4, h5, h6, h7]
        simp only [not_or] at hsp
        have hE : jsonEscape (b :: t) = b :: jsonEscape t := by simp [jsonEscape, hc]
        rw [hE] at hf ⊢
        have e1 : pre ++ (b :: jsonEscape t) ++ 34 :: rest = (pre ++ [b]) ++ jsonEscape t ++ 34 :: rest := by simp
        unfold strScan
        have h0 : at0 (pre ++ (b :: jsonEscape t) ++ 34 :: rest) pre.length = b := by simp [at0]
        simp only [h0]
        have hb0 : (b == 0) = false := by simpa using hb
        have hb34 : (b == 34) = false := by simpa using hsp.2.2.2.2.2.1
        have hb92 : (b == 92) = false := by simpa using hsp.2.2.2.2.2.2
        simp only [hb0, hb34, hb92, Bool.false_eq_true, if_false]
        rw [e1]
        have := ih ht (pre ++ [b]) f (by simp at hf ⊢; omega)
        simp only [List.length_append, List.length_cons, List.length_nil] at this
        rw [this]
        simp; omega

/-- **parser robustness**: for every byte string whatsoever, `Data::fromJSON` - the trimming, the token-budget loop around
jsmn, the tree builder with its two stacks, all array accesses and `back()`/`pop_back()` calls modelled with checked
indices - yields a value, "not JSON" or an error; it never reads outside the token array and never pops an empty stack -/
theorem fromJSON_no_oob (input : Bytes) : ∀ r, fromJSON input = r → r ≠ .oob :=
  Proofs.JsonBounds.fromJSON_no_oob input

/-- the three outcomes do occur (the theorem is not about an empty domain) -/
example : (match fromJSON [123, 125] with | .value _ => true | _ => false) = true := by decide
example : (match fromJSON [91, 49, 44] with | .error _ => true | _ => false) = true := by decide
example : (match fromJSON [52, 50] with | .notJson => true | _ => false) = true := by decide

end UscxmlVerif.Properties.C15
