import UscxmlVerif.Model.EventQueue
import UscxmlVerif.Proofs.Ext
import UscxmlVerif.Model.Api
/-!
# C08 — external events are processed exactly once, in order, at macrostep boundaries

Two layers. (1) `Model.EventQueue`: the queue as a sequence of atomic operations of any number
of threads. (2) `Model.Large.step` / `Model.Fast.step`: when the micro-steppers take an event
from which queue. The correspondence suites: `trace-*` of C01/C03 (I = M on the full monitor
alphabet, external events included) and `threads` of this check (N producer threads against the
compiled interpreter under ThreadSanitizer: every event processed once, per-sender order, each
followed by the internal events it raised).
-/
namespace UscxmlVerif.Properties.C08
open UscxmlVerif UscxmlVerif.Model UscxmlVerif.Model.Large UscxmlVerif.Proofs.Ext

/-! ## (1) the queue -/
section queue
open UscxmlVerif.Model.EventQueue

theorem foldl_step_inv (ops : List Op) (q : Q) :
    (ops.foldl EventQueue.step q).out ++ (ops.foldl EventQueue.step q).queue = q.out ++ q.queue ++ enqueued ops := by
  induction ops generalizing q with
  | nil => simp [enqueued]
  | cons op ops ih =>
    simp only [List.foldl_cons]
    rw [ih]
    cases op with
    | enq e => simp [EventQueue.step, enqueued, List.append_assoc]
    | deq =>
      simp only [EventQueue.step, enqueued]
      cases hq : q.queue with
      | nil => simp [hq]
      | cons e rest => simp [List.append_assoc]

/-- **nothing is lost, duplicated or reordered**, for every interleaving of any number of
producers with the consumer: what `dequeue` returned so far followed by what is still queued is
exactly the sequence of enqueued events in the order their calls took the mutex -/
theorem queue_is_fifo (ops : List Op) : (run ops).out ++ (run ops).queue = enqueued ops := by
  have := foldl_step_inv ops {}
  simpa [run] using this

/-- every dequeued event was enqueued, as often as it was enqueued at most -/
theorem dequeued_is_prefix (ops : List Op) : (run ops).out <+: enqueued ops :=
  ⟨(run ops).queue, queue_is_fifo ops⟩

/-- **events of the same sender are dequeued in the order they were sent** -/
theorem per_sender_order (ops : List Op) (s : Nat) :
    ((run ops).out.filter (·.sender == s)) <+: ((enqueued ops).filter (·.sender == s)) := by
  obtain ⟨rest, h⟩ := dequeued_is_prefix ops
  exact ⟨rest.filter (·.sender == s), by rw [← h, List.filter_append]⟩

/-- once the queue has been drained, exactly the enqueued events were delivered, once each -/
theorem drained_exactly_once (ops : List Op) (h : (run ops).queue = []) : (run ops).out = enqueued ops := by
  have := queue_is_fifo ops
  rw [h, List.append_nil] at this
  exact this

end queue

/-! ## (2) the micro-steppers -/

/-- the interpreter is at a macrostep boundary: initialised, no eventless transition pending, the
internal queue empty and the stable configuration reported -/
def Quiescent (e : EState) : Prop :=
  e.pristine = false ∧ e.spontaneous = false ∧ e.x.iq = [] ∧ e.stable = true ∧ e.topLevelFinal = false ∧ e.finished = false

/-- nothing was taken from the external queue: it was only appended to -/
def EqExt (x y : XS) : Prop := ∃ b, y.eq = x.eq ++ b
theorem EqExt.refl (x : XS) : EqExt x x := ⟨[], by simp⟩
theorem EqExt.trans {a b c : XS} (h1 : EqExt a b) (h2 : EqExt b c) : EqExt a c := by
  obtain ⟨l1, e1⟩ := h1
  obtain ⟨l2, e2⟩ := h2
  exact ⟨l1 ++ l2, by rw [e2, e1, List.append_assoc]⟩
theorem EqExt.of_ext {x y : XS} (h : Ext x y) : EqExt x y := h.2.1

theorem large_step_ext (c : Chart) (e : EState) (h : ¬ Quiescent e) :
    EqExt e.x (Large.step c e).1.x := by
  unfold Large.step
  by_cases hf : e.finished = true
  · rw [if_pos hf]; exact EqExt.refl _
  · rw [if_neg hf]
    by_cases ht : e.topLevelFinal = true
    · rw [if_pos ht]
      refine EqExt.of_ext (Ext.trans ?_ (ext_emit _ _))
      exact Ext.trans (ext_emit _ _) (ext_foldl _ (fun x s => ext_execBlocks _ _ _ _) _ _)
    · rw [if_neg ht]
      by_cases hp : e.pristine = true
      · rw [if_pos hp]
        exact EqExt.of_ext (Ext.trans (ext_emit e.x .bm) (large_microstep_ext c _ _ _ _ _))
      · rw [if_neg hp]
        by_cases hs : e.spontaneous = true
        · rw [if_pos hs]
          exact EqExt.of_ext (large_selectAndStep_ext c e none)
        · rw [if_neg hs]
          split
          · rename_i ev rest hi
            refine EqExt.trans ?_ (EqExt.of_ext (large_selectAndStep_ext c _ (some ev)))
            exact ⟨[], by simp [XS.emit]⟩
          · rename_i hi
            simp only
            by_cases hst : e.stable = true
            · exact absurd ⟨by simpa using hp, by simpa using hs, hi, hst, by simpa using ht, by simpa using hf⟩ h
            · have hst' : (!e.stable) = true := by simpa using hst
              rw [if_pos hst']
              exact ⟨[], by simp [XS.emit]⟩

theorem fast_step_ext (c : Chart) (e : EState) (h : ¬ Quiescent e) :
    EqExt e.x (Fast.step c e).1.x := by
  unfold Fast.step
  by_cases hf : e.finished = true
  · rw [if_pos hf]; exact EqExt.refl _
  · rw [if_neg hf]
    by_cases ht : e.topLevelFinal = true
    · rw [if_pos ht]
      refine EqExt.of_ext (Ext.trans ?_ (ext_emit _ _))
      exact Ext.trans (ext_emit _ _) (ext_foldl _ (fun x s => ext_execBlocks _ _ _ _) _ _)
    · rw [if_neg ht]
      by_cases hp : e.pristine = true
      · rw [if_pos hp]
        exact EqExt.of_ext (Ext.trans (ext_emit e.x .bm) (fast_microstep_ext c _ _ _ _ _))
      · rw [if_neg hp]
        by_cases hs : e.spontaneous = true
        · rw [if_pos hs]
          exact EqExt.of_ext (fast_selectAndStep_ext c e none)
        · rw [if_neg hs]
          split
          · rename_i ev rest hi
            refine EqExt.trans ?_ (EqExt.of_ext (fast_selectAndStep_ext c _ (some ev)))
            exact ⟨[], by simp [XS.emit]⟩
          · rename_i hi
            simp only
            by_cases hst : e.stable = true
            · exact absurd ⟨by simpa using hp, by simpa using hs, hi, hst, by simpa using ht, by simpa using hf⟩ h
            · have hst' : (!e.stable) = true := by simpa using hst
              rw [if_pos hst']
              exact ⟨[], by simp [XS.emit]⟩

/-- **an external event is only taken at a macrostep boundary**: unless the interpreter is
quiescent (no eventless transition pending, internal queue empty, stable configuration
reported), a step takes nothing from the external queue — it can only append to it -/
theorem external_only_when_quiescent (eng : Api.Engine) (c : Chart) (e : EState) (h : ¬ Quiescent e) :
    ∃ b, (Api.engineStep eng c e).1.x.eq = e.x.eq ++ b := by
  show EqExt e.x (Api.engineStep eng c e).1.x
  cases eng
  · exact large_step_ext c e h
  · exact fast_step_ext c e h

/-- the state in which the micro-stepper looks at the internal queue: initialised, not
finalising, no eventless transition pending -/
def Dequeuing (e : EState) : Prop :=
  e.finished = false ∧ e.topLevelFinal = false ∧ e.pristine = false ∧ e.spontaneous = false

theorem engine_internal (eng : Api.Engine) (c : Chart) (e : EState) (h : Dequeuing e) (ev : String) (rest : List String)
    (hi : e.x.iq = ev :: rest) :
    Ext (({ e.x with iq := rest } : XS).emit (.bpe ev)) (Api.engineStep eng c e).1.x := by
  obtain ⟨hf, ht, hp, hs⟩ := h
  cases eng
  · simp only [Api.engineStep]
    unfold Large.step
    rw [if_neg (by simp [hf]), if_neg (by simp [ht]), if_neg (by simp [hp]), if_neg (by simp [hs])]
    split
    · rename_i ev' rest' hi'
      rw [hi] at hi'; cases hi'
      exact large_selectAndStep_ext c _ (some ev)
    · rename_i hi'; rw [hi] at hi'; cases hi'
  · simp only [Api.engineStep]
    unfold Fast.step
    rw [if_neg (by simp [hf]), if_neg (by simp [ht]), if_neg (by simp [hp]), if_neg (by simp [hs])]
    split
    · rename_i ev' rest' hi'
      rw [hi] at hi'; cases hi'
      exact fast_selectAndStep_ext c _ (some ev)
    · rename_i hi'; rw [hi] at hi'; cases hi'

/-- **internal events are processed in the order they were raised**: the event processed is the
head of the internal queue; what the micro-step raises is appended behind the events that were
already waiting -/
theorem internal_events_in_raise_order (eng : Api.Engine) (c : Chart) (e : EState) (h : Dequeuing e)
    (ev : String) (rest : List String) (hi : e.x.iq = ev :: rest) :
    (∃ raised, (Api.engineStep eng c e).1.x.iq = rest ++ raised) ∧
    (∃ later, (Api.engineStep eng c e).1.x.obs = later ++ Tok.bpe ev :: e.x.obs) ∧
    (∃ sent, (Api.engineStep eng c e).1.x.eq = e.x.eq ++ sent) := by
  obtain ⟨⟨a, ha⟩, ⟨b, hb⟩, ⟨o, ho⟩⟩ := engine_internal eng c e h ev rest hi
  exact ⟨⟨a, ha⟩, ⟨o, by rw [ho]; rfl⟩, ⟨b, hb⟩⟩

theorem engine_external (eng : Api.Engine) (c : Chart) (e : EState) (h : Quiescent e) (ev : String) (rest : List String)
    (hq : e.x.eq = ev :: rest) (hne : ev ≠ "") :
    Ext (({ e.x with eq := rest } : XS).emit (.bpe ev)) (Api.engineStep eng c e).1.x := by
  obtain ⟨hp, hs, hi, hst, ht, hf⟩ := h
  have hne' : (ev == "") = false := by simpa using hne
  cases eng
  · simp only [Api.engineStep]
    unfold Large.step
    rw [if_neg (by simp [hf]), if_neg (by simp [ht]), if_neg (by simp [hp]), if_neg (by simp [hs])]
    split
    · rename_i hi'; rw [hi] at hi'; cases hi'
    · simp only [hst, Bool.not_true, Bool.false_eq_true, if_false]
      split
      · rename_i ev' rest' hq'
        rw [hq] at hq'; cases hq'
        simp only [hne', Bool.false_eq_true, if_false]
        exact large_selectAndStep_ext c _ (some ev)
      · rename_i hq'; rw [hq] at hq'; cases hq'
  · simp only [Api.engineStep]
    unfold Fast.step
    rw [if_neg (by simp [hf]), if_neg (by simp [ht]), if_neg (by simp [hp]), if_neg (by simp [hs])]
    split
    · rename_i hi'; rw [hi] at hi'; cases hi'
    · simp only [hst, Bool.not_true, Bool.false_eq_true, if_false]
      split
      · rename_i ev' rest' hq'
        rw [hq] at hq'; cases hq'
        simp only [hne', Bool.false_eq_true, if_false]
        exact fast_selectAndStep_ext c _ (some ev)
      · rename_i hq'; rw [hq] at hq'; cases hq'

/-- **at a macrostep boundary the oldest external event is taken, exactly once**: it leaves the
queue, its processing is announced, and whatever the micro-step sends to the session itself is
appended behind the events already waiting -/
theorem external_events_in_arrival_order (eng : Api.Engine) (c : Chart) (e : EState) (h : Quiescent e)
    (ev : String) (rest : List String) (hq : e.x.eq = ev :: rest) (hne : ev ≠ "") :
    (∃ sent, (Api.engineStep eng c e).1.x.eq = rest ++ sent) ∧
    (∃ later, (Api.engineStep eng c e).1.x.obs = later ++ Tok.bpe ev :: e.x.obs) := by
  obtain ⟨_, ⟨b, hb⟩, ⟨o, ho⟩⟩ := engine_external eng c e h ev rest hq hne
  exact ⟨⟨b, hb⟩, ⟨o, by rw [ho]; rfl⟩⟩

/-! non-vacuity -/
example : Quiescent { pristine := false, stable := true, x := { eq := ["e"] } } := by
  simp [Quiescent]
example : Dequeuing { pristine := false, x := { iq := ["a", "b"] } } := by
  simp [Dequeuing]
example : ¬ Quiescent { pristine := false, stable := true, x := { iq := ["a"], eq := ["e"] } } := by
  simp [Quiescent]

end UscxmlVerif.Properties.C08
