import UscxmlVerif.Model.Invoke
/-!
# C11 — invocations start and stop exactly once (the bookkeeping part)

Statements about `Model.Invoke`, the micro-steppers' `_invocations` bookkeeping, for every sequence
of exits, entries, macrostep ends and finishes. The correspondence suite `invoke-bookkeeping` of check
C11 extracts that sequence from the compiled interpreter's monitor trace (exited / entered states,
stable-configuration notices, completion) and compares the invoke / uninvoke notifications it
reports with `run`'s output. What threads add (the invoked session's own thread, `done.invoke`
racing with the cancellation) is explored by the `invoke-threads` suite under ThreadSanitizer.
-/
namespace UscxmlVerif.Properties.C11
open UscxmlVerif.Model.Invoke

def cnt (o : Out) (l : List Out) : Nat := l.count o

/-- states are numbered below `n`, and only those are ever entered -/
def InRange (n : Nat) : List Act → Prop
  | [] => True
  | .enter s :: as => s < n ∧ InRange n as
  | _ :: as => InRange n as

structure Inv (n : Nat) (hasInvoke : Nat → Bool) (st : S) : Prop where
  active : ∀ s, st.invoked s = true → st.config s = true ∧ hasInvoke s = true ∧ s < n
  range : ∀ s, st.config s = true → s < n
  balance : ∀ s, cnt (.invoke s) st.out = cnt (.uninvoke s) st.out + (if st.invoked s then 1 else 0)

theorem inv_init (n : Nat) (h : Nat → Bool) : Inv n h {} :=
  ⟨fun _ hs => (by cases hs), fun _ hs => (by cases hs), fun _ => (by simp [cnt])⟩

theorem count_map_invoke (s : Nat) (l : List Nat) : cnt (.invoke s) (l.map Out.invoke) = l.count s := by
  induction l with
  | nil => rfl
  | cons x xs ih =>
    simp only [List.map_cons, cnt, List.count_cons] at ih ⊢
    rw [ih]
    by_cases hx : x = s <;> simp [hx]

theorem count_map_uninvoke (s : Nat) (l : List Nat) : cnt (.uninvoke s) (l.map Out.uninvoke) = l.count s := by
  induction l with
  | nil => rfl
  | cons x xs ih =>
    simp only [List.map_cons, cnt, List.count_cons] at ih ⊢
    rw [ih]
    by_cases hx : x = s <;> simp [hx]

theorem count_invoke_in_uninvokes (s : Nat) (l : List Nat) : cnt (.invoke s) (l.map Out.uninvoke) = 0 := by
  induction l with
  | nil => rfl
  | cons x xs ih => simp only [List.map_cons, cnt, List.count_cons] at ih ⊢; simp [ih]

theorem count_uninvoke_in_invokes (s : Nat) (l : List Nat) : cnt (.uninvoke s) (l.map Out.invoke) = 0 := by
  induction l with
  | nil => rfl
  | cons x xs ih => simp only [List.map_cons, cnt, List.count_cons] at ih ⊢; simp [ih]

theorem count_filter_range (n s : Nat) (p : Nat → Bool) :
    ((List.range n).filter p).count s = if s < n ∧ p s = true then 1 else 0 := by
  induction n with
  | zero => simp
  | succ n ih =>
    rw [List.range_succ, List.filter_append, List.count_append, ih]
    by_cases hp : p n = true
    · simp only [List.filter_cons, hp, if_true, List.filter_nil, List.count_cons, List.count_nil]
      by_cases hsn : s = n
      · subst hsn; simp [hp]
      · have : (n == s) = false := by simp [Ne.symm hsn]
        simp only [this]
        by_cases hlt : s < n
        · have : s < n + 1 := by omega
          simp [hlt, this]
        · have : ¬ s < n + 1 := by omega
          simp [hlt, this]
    · have hp' : p n = false := by simpa using hp
      simp only [List.filter_cons, hp', Bool.false_eq_true, if_false, List.filter_nil, List.count_nil, Nat.add_zero]
      by_cases hsn : s = n
      · subst hsn; simp [hp']
      · by_cases hlt : s < n
        · have : s < n + 1 := by omega
          simp [hlt, this]
        · have : ¬ s < n + 1 := by omega
          simp [hlt, this]

theorem count_filter_range_rev (n s : Nat) (p : Nat → Bool) :
    ((List.range n).reverse.filter p).count s = if s < n ∧ p s = true then 1 else 0 := by
  rw [List.filter_reverse, List.count_reverse, count_filter_range]

theorem cnt_append (o : Out) (a b : List Out) : cnt o (a ++ b) = cnt o a + cnt o b := List.count_append

theorem inv_step (n : Nat) (h : Nat → Bool) (st : S) (a : Act) (hi : Inv n h st)
    (hr : match a with | .enter s => s < n | _ => True) : Inv n h (step n h st a) := by
  cases a with
  | exit s =>
    refine ⟨?_, ?_, ?_⟩
    · intro x hx
      simp only [step, Bool.and_eq_true, bne_iff_ne, ne_eq] at hx ⊢
      have := hi.active x hx.2
      exact ⟨⟨hx.1, this.1⟩, this.2⟩
    · intro x hx
      simp only [step, Bool.and_eq_true] at hx
      exact hi.range x hx.2
    · intro x
      have hb := hi.balance x
      simp only [step]
      by_cases hs : st.invoked s = true
      · simp only [hs, if_true, cnt_append]
        by_cases hxs : x = s
        · subst hxs
          simp [cnt, hs] at hb ⊢
          omega
        · have h1 : cnt (.invoke x) [Out.uninvoke s] = 0 := by simp [cnt]
          have h2 : cnt (.uninvoke x) [Out.uninvoke s] = 0 := by simp [cnt, Ne.symm hxs]
          simp only [h1, h2, Nat.add_zero]
          simp [hxs] at hb ⊢
          exact hb
      · have hs' : st.invoked s = false := by simpa using hs
        simp only [hs', Bool.false_eq_true, if_false]
        by_cases hxs : x = s
        · subst hxs; simp [hs'] at hb ⊢; exact hb
        · simp [hxs] at hb ⊢; exact hb
  | enter s =>
    refine ⟨?_, ?_, hi.balance⟩
    · intro x hx
      have := hi.active x hx
      simp only [step, Bool.or_eq_true]
      exact ⟨Or.inr this.1, this.2⟩
    · intro x hx
      simp only [step, Bool.or_eq_true, beq_iff_eq] at hx
      rcases hx with hx | hx
      · subst hx; exact hr
      · exact hi.range x hx
  | macroEnd =>
    have hgone : ∀ s, (st.invoked s && !st.config s) = false := by
      intro s
      cases hs : st.invoked s
      · rfl
      · simp [(hi.active s hs).1]
    have hgone' : (List.range n).filter (fun s => st.invoked s && !st.config s) = [] := by
      apply List.filter_eq_nil_iff.mpr
      intro s _
      simp [hgone s]
    refine ⟨?_, hi.range, ?_⟩
    · intro x hx
      simp only [step, Bool.or_eq_true, Bool.and_eq_true, decide_eq_true_eq] at hx
      rcases hx with hx | hx
      · exact hi.active x hx.1
      · exact ⟨hx.1.2, hx.2, hx.1.1⟩
    · intro x
      have hb := hi.balance x
      simp only [step, hgone', List.map_nil, List.append_nil, cnt_append, count_map_invoke, count_uninvoke_in_invokes,
        count_filter_range, Nat.add_zero]
      cases hinv : st.invoked x
      · simp only [hinv, Bool.false_eq_true, if_false, Nat.add_zero] at hb
        by_cases hc : st.config x = true ∧ h x = true
        · have hlt := hi.range x hc.1
          simp [hb, hc.1, hc.2, hlt, hinv]
        · by_cases hc1 : st.config x = true
          · have hh : h x = false := by
              cases hh : h x
              · rfl
              · exact absurd ⟨hc1, hh⟩ hc
            simp [hb, hc1, hh, hinv]
          · have hc1' : st.config x = false := by simpa using hc1
            simp [hb, hc1', hinv]
      · have ha := hi.active x hinv
        simp only [hinv, if_true] at hb
        simp [hb, ha.1, ha.2.1, hinv]
  | finish =>
    refine ⟨fun _ hx => (by cases hx), fun _ hx => (by cases hx), ?_⟩
    intro x
    have hb := hi.balance x
    simp only [step, cnt_append, count_invoke_in_uninvokes, count_map_uninvoke, count_filter_range_rev, Nat.add_zero]
    cases hinv : st.invoked x
    · simp [hinv] at hb ⊢; exact hb
    · have ha := hi.active x hinv
      simp [hinv, ha.2.2] at hb ⊢
      omega

theorem inv_run (n : Nat) (h : Nat → Bool) (acts : List Act) (hr : InRange n acts) (st : S) (hi : Inv n h st) :
    Inv n h (acts.foldl (step n h) st) := by
  induction acts generalizing st with
  | nil => exact hi
  | cons a as ih =>
    simp only [List.foldl_cons]
    cases a with
    | enter s => exact ih hr.2 _ (inv_step n h st (.enter s) hi hr.1)
    | exit s => exact ih hr _ (inv_step n h st (.exit s) hi trivial)
    | macroEnd => exact ih hr _ (inv_step n h st .macroEnd hi trivial)
    | finish => exact ih hr _ (inv_step n h st .finish hi trivial)

/-! ## the properties -/

/-- **invocations and cancellations alternate**, for every state and every history of exits, entries,
macrostep ends and finishes: a state has been invoked exactly once more often than cancelled while
its invocation runs, and exactly as often otherwise — no invocation is started twice, none is
cancelled twice, none is cancelled without having been started -/
theorem starts_and_stops_alternate (n : Nat) (h : Nat → Bool) (acts : List Act) (hr : InRange n acts) (s : Nat) :
    cnt (.invoke s) (run n h acts).out =
      cnt (.uninvoke s) (run n h acts).out + (if (run n h acts).invoked s then 1 else 0) :=
  (inv_run n h acts hr {} (inv_init n h)).balance s

/-- an invocation only runs while its state is active -/
theorem invoked_only_while_active (n : Nat) (h : Nat → Bool) (acts : List Act) (hr : InRange n acts) (s : Nat)
    (hs : (run n h acts).invoked s = true) : (run n h acts).config s = true ∧ h s = true :=
  let a := (inv_run n h acts hr {} (inv_init n h)).active s hs
  ⟨a.1, a.2.1⟩

/-- **cancelled exactly once when the state is exited**: exiting a state whose invocation runs appends
exactly one cancellation, and the invocation is over -/
theorem exit_cancels_once (n : Nat) (h : Nat → Bool) (st : S) (s : Nat) (hs : st.invoked s = true) :
    (step n h st (.exit s)).out = st.out ++ [.uninvoke s] ∧ (step n h st (.exit s)).invoked s = false := by
  simp [step, hs]

/-- … and exiting a state that is not invoked tells the invokers nothing -/
theorem exit_of_uninvoked_is_silent (n : Nat) (h : Nat → Bool) (st : S) (s : Nat) (hs : st.invoked s = false) :
    (step n h st (.exit s)).out = st.out := by
  simp [step, hs]

/-- **started exactly once when a macrostep ends with the state active**: at the end of a macrostep
every active state with `<invoke>` children is invoked afterwards; those that were not yet are started —
each once, in document order — and nothing else is -/
theorem macrostep_end_starts (n : Nat) (h : Nat → Bool) (acts : List Act) (hr : InRange n acts) :
    let st := run n h acts
    let st' := step n h st .macroEnd
    (∀ s, st.config s = true → h s = true → st'.invoked s = true) ∧
    st'.out = st.out ++ ((List.range n).filter (fun s => st.config s && h s && !st.invoked s)).map Out.invoke := by
  intro st st'
  have hi := inv_run n h acts hr {} (inv_init n h)
  refine ⟨?_, ?_⟩
  · intro s hc hh
    have := hi.range s hc
    simp [st', step, hc, hh, this]
  · have hgone' : (List.range n).filter (fun s => st.invoked s && !st.config s) = [] := by
      apply List.filter_eq_nil_iff.mpr
      intro s _
      cases hs : st.invoked s
      · simp
      · have := (hi.active s hs).1
        have this' : st.config s = true := this
        simp [this']
    simp [st', step, hgone']

/-- **when the interpreter finishes every running invocation is cancelled**: afterwards every state has been
cancelled exactly as often as it was started -/
theorem finish_cancels_all (n : Nat) (h : Nat → Bool) (acts : List Act) (hr : InRange n acts) (s : Nat) :
    cnt (.invoke s) (run n h (acts ++ [.finish])).out = cnt (.uninvoke s) (run n h (acts ++ [.finish])).out := by
  have hr' : InRange n (acts ++ [.finish]) := by
    induction acts with
    | nil => trivial
    | cons a as ih =>
      cases a with
      | enter x => exact ⟨hr.1, ih hr.2⟩
      | exit x => exact ih hr
      | macroEnd => exact ih hr
      | finish => exact ih hr
  have := starts_and_stops_alternate n h (acts ++ [.finish]) hr' s
  have hinv : (run n h (acts ++ [.finish])).invoked s = false := by
    simp [run, List.foldl_append, step]
  simpa [hinv] using this

/-! non-vacuity: exit and re-entry within one macrostep ends the old invocation and starts a new one -/
example : (run 3 (fun s => s == 1) [.enter 0, .enter 1, .macroEnd, .exit 1, .enter 1, .macroEnd, .finish]).out =
    [.invoke 1, .uninvoke 1, .invoke 1, .uninvoke 1] := by decide

end UscxmlVerif.Properties.C11
