import UscxmlVerif.Model.Tables
/-!
# C05 — the transpilers compute the chart's structural relations correctly

`Model.Tables` mirrors `ChartToC::prepare` and `Predicates.cpp`; the suite `tables` compares it
bit for bit with the annotation the compiled transformer leaves in the DOM.
-/
namespace UscxmlVerif.Properties.C05
open UscxmlVerif UscxmlVerif.Model.Tables

/-- the conflict relation is symmetric (the C generator only stores it once per pair in the sense
that `conflicts[i][j]` and `conflicts[j][i]` are interchangeable) -/
theorem conflicts_symm (c : Chart) (i j : Nat) : conflicts c i j = conflicts c j i := by
  unfold conflicts
  simp only
  have h1 : ((exitSet c (tr c i)).any fun s => (exitSet c (tr c j)).contains s) =
      ((exitSet c (tr c j)).any fun s => (exitSet c (tr c i)).contains s) := by
    rw [Bool.eq_iff_iff]
    simp only [List.any_eq_true, List.contains_iff_mem]
    constructor <;> (rintro ⟨s, h1, h2⟩; exact ⟨s, h2, h1⟩)
  rw [h1]
  have h2 : (sourceState c (tr c i) == sourceState c (tr c j)) = (sourceState c (tr c j) == sourceState c (tr c i)) :=
    Bool.beq_comm
  rw [h2]
  cases (exitSet c (tr c j)).any fun s => (exitSet c (tr c i)).contains s <;>
    cases sourceState c (tr c j) == sourceState c (tr c i) <;>
    cases isDescendant c (sourceState c (tr c i)) (sourceState c (tr c j)) <;>
    cases isDescendant c (sourceState c (tr c j)) (sourceState c (tr c i)) <;> rfl

/-- every transition conflicts with itself (and with every other transition of its source) -/
theorem conflicts_same_source (c : Chart) (i j : Nat)
    (h : sourceState c (tr c i) = sourceState c (tr c j)) : conflicts c i j = true := by
  unfold conflicts
  simp [h]

/-- the static exit set only holds proper states strictly below the transition domain -/
theorem exitSet_below_domain (c : Chart) (t : Tr) (s : Nat) (h : s ∈ exitSet c t) :
    ∃ d, transitionDomain c t = some d ∧ isDescendant c s d = true ∧ (st c s).kind.isProper = true := by
  unfold exitSet at h
  split at h
  · simp at h
  · split at h
    · simp at h
    · rename_i d hd
      simp only [List.mem_filter, List.mem_range, Bool.and_eq_true, Bool.or_eq_true] at h
      refine ⟨d, hd, h.2.1, ?_⟩
      rcases h.2.2 with (hk | hk) | hk <;>
        (have hk' := eq_of_beq hk; rw [hk']; rfl)

/-- a targetless transition exits nothing -/
theorem exitSet_targetless (c : Chart) (t : Tr) (h : t.targetless = true) : exitSet c t = [] := by
  simp [exitSet, h]

end UscxmlVerif.Properties.C05
