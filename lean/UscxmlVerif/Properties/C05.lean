import UscxmlVerif.Model.Tables
import UscxmlVerif.Proofs.Struct
import UscxmlVerif.Proofs.Flatten
/-!
# C05 — the transpilers compute the chart's structural relations correctly

`Model.Tables` mirrors `ChartToC::prepare` and `Predicates.cpp`; the suite `tables` compares it
bit for bit with the annotation the compiled transformer leaves in the DOM.
-/
namespace UscxmlVerif.Properties.C05
open UscxmlVerif UscxmlVerif.Model.Tables UscxmlVerif.Proofs.Struct

/-- the conflict relation is symmetric (the C generator only stores it once per pair in the sense
that `conflicts[i][j]` and `conflicts[j][i]` are interchangeable) -/
theorem conflicts_symm (c : Chart) (i j : Nat) : conflicts c i j = conflicts c j i := by
  unfold conflicts
  simp only
  have h1 : ((exitSet c (tr c i)).any fun s => (exitSet c (tr c j)).contains s) =
      ((exitSet c (tr c j)).any fun s => (exitSet c (tr c i)).contains s) := by
    rw [Bool.eq_iff_iff]
    simp only [List.any_eq_true, List.contains_iff_mem]
    constructor <;> (rintro ⟨s, h1, h2⟩; exact ⟨s, h2, h1⟩)
  rw [h1]
  have h2 : (sourceState c (tr c i) == sourceState c (tr c j)) = (sourceState c (tr c j) == sourceState c (tr c i)) :=
    Bool.beq_comm
  rw [h2]
  cases (exitSet c (tr c j)).any fun s => (exitSet c (tr c i)).contains s <;>
    cases sourceState c (tr c j) == sourceState c (tr c i) <;>
    cases isDescendant c (sourceState c (tr c i)) (sourceState c (tr c j)) <;>
    cases isDescendant c (sourceState c (tr c j)) (sourceState c (tr c i)) <;> rfl

/-- every transition conflicts with itself (and with every other transition of its source) -/
theorem conflicts_same_source (c : Chart) (i j : Nat)
    (h : sourceState c (tr c i) = sourceState c (tr c j)) : conflicts c i j = true := by
  unfold conflicts
  simp [h]

/-- the static exit set only holds proper states strictly below the transition domain -/
theorem exitSet_below_domain (c : Chart) (t : Tr) (s : Nat) (h : s ∈ exitSet c t) :
    ∃ d, transitionDomain c t = some d ∧ isDescendant c s d = true ∧ (st c s).kind.isProper = true := by
  unfold exitSet at h
  split at h
  · simp at h
  · split at h
    · simp at h
    · rename_i d hd
      simp only [List.mem_filter, List.mem_range, Bool.and_eq_true, Bool.or_eq_true] at h
      refine ⟨d, hd, h.2.1, ?_⟩
      rcases h.2.2 with (hk | hk) | hk <;>
        (have hk' := eq_of_beq hk; rw [hk']; rfl)

/-- a targetless transition exits nothing -/
theorem exitSet_targetless (c : Chart) (t : Tr) (h : t.targetless = true) : exitSet c t = [] := by
  simp [exitSet, h]

/-! ## the embedded relations are the Recommendation's

`Spec.W3C` is Appendix D (the oracle of C01); `Coherent` is the decidable well-formedness of the flat chart that the
driver evaluates on every generated document; `plainTrans` singles out the transitions of real states with real
(non-history) targets - for transitions into a history the embedded domain is computed from the pseudo-state, the
recorded deviation `hist-domain`. -/

/-- decidable form of `PlainTrans` -/
def plainTrans (c : Chart) (t : Tr) : Bool :=
  ((st c t.source).kind == .state || (st c t.source).kind == .parallel) && decide (t.source < c.states.size) &&
  t.targets.all (fun g => g != 0 && decide (g < c.states.size) && !Spec.W3C.isHistoryState c g) &&
  (!t.targetless || t.targets.isEmpty)

theorem plain_of_plainTrans {c : Chart} {t : Tr} (h : plainTrans c t = true) :
    PlainTrans c t ∧ (t.targetless = true → t.targets = []) := by
  unfold plainTrans at h
  simp only [Bool.and_eq_true, Bool.or_eq_true, beq_iff_eq, decide_eq_true_eq, List.all_eq_true, bne_iff_ne,
    Bool.not_eq_eq_eq_not, Bool.not_true] at h
  obtain ⟨⟨⟨h1, h2⟩, h3⟩, h4⟩ := h
  refine ⟨⟨h1, h2, fun g hg => ⟨(h3 g hg).1.1, (h3 g hg).1.2, (h3 g hg).2⟩⟩, ?_⟩
  intro hl
  rcases h4 with h4 | h4
  · rw [hl] at h4; cases h4
  · exact List.isEmpty_iff.mp h4

/-- ancestor table: bit `j` of `ancBools i` says that `j` is a proper ancestor of `i` in Appendix D's sense -/
theorem ancestors_are_w3c (c : Chart) (s a : Nat) : isDescendant c s a = Spec.W3C.isDescendant c s a :=
  (desc_eq c s a).symm

/-- **transition domain** = Appendix D's `getTransitionDomain`, over raw or effective targets, for every recorded history -/
theorem domain_is_w3c (c : Chart) (hc : Coherent c = true) (t : Tr) (ht : plainTrans c t = true)
    (raw : Bool) (hist : List (Nat × List Nat)) :
    transitionDomain c t = Spec.W3C.getTransitionDomain c raw hist t :=
  (domain_eq c (coh_of_coherent hc) t (plain_of_plainTrans ht).1 raw hist).symm

/-- **exit set**: in every configuration of real states, Appendix D's `computeExitSet` of a transition is the active part
of the embedded `exitSetBools` -/
theorem exit_set_is_w3c (c : Chart) (hc : Coherent c = true) (S : Spec.W3C.SState) (ti : Nat)
    (ht : plainTrans c (tr c ti) = true) (hcfg : ConfigOk c S.config) (s : Nat) :
    s ∈ Spec.W3C.exitSetOf c S ti ↔ s ∈ S.config ∧ s ∈ exitSet c (tr c ti) :=
  exitSet_eq c (coh_of_coherent hc) S ti (plain_of_plainTrans ht).1 (plain_of_plainTrans ht).2 hcfg s

/-- **conflict relation, soundness**: transitions that conflict in Appendix D's sense in some configuration are marked
in `conflictBools` -/
theorem conflict_table_sound (c : Chart) (hc : Coherent c = true) (S : Spec.W3C.SState) (i j : Nat)
    (hi : plainTrans c (tr c i) = true) (hj : plainTrans c (tr c j) = true) (hcfg : ConfigOk c S.config)
    (s : Nat) (h1 : s ∈ Spec.W3C.exitSetOf c S i) (h2 : s ∈ Spec.W3C.exitSetOf c S j) : conflicts c i j = true :=
  conflicts_sound c (coh_of_coherent hc) S i j (plain_of_plainTrans hi).1 (plain_of_plainTrans hj).1
    (plain_of_plainTrans hi).2 (plain_of_plainTrans hj).2 hcfg s h1 h2

/-- **conflict relation, exactness across regions**: for transitions whose sources are neither equal nor nested,
`conflictBools` says exactly that the static exit sets share a state. (Transitions with equal or nested sources are
always marked: the transpilers' way of choosing one transition per atomic state; where that is coarser than the
Recommendation is the recorded finding `nested-targetless`.) -/
theorem conflict_table_exact (c : Chart) (i j : Nat)
    (hne : sourceState c (tr c i) ≠ sourceState c (tr c j))
    (h1 : isDescendant c (sourceState c (tr c i)) (sourceState c (tr c j)) = false)
    (h2 : isDescendant c (sourceState c (tr c j)) (sourceState c (tr c i)) = false) :
    conflicts c i j = true ↔ ∃ s, s ∈ exitSet c (tr c i) ∧ s ∈ exitSet c (tr c j) :=
  conflicts_exact c i j hne h1 h2

/-- the hypothesis `Coherent` is a theorem for the charts the checks work with: `flatten` of every document whose root is
`<scxml>`, in which only scxml / state / parallel elements have state-like children and no child is an scxml element -/
theorem flatten_is_coherent (d : Doc) (late : Bool) (hwf : Proofs.Flatten.WFDoc d = true) (hroot : d.kind = .scxml) :
    Coherent (flatten d late) = true :=
  Proofs.Flatten.coherent_flatten d late hwf hroot

/-- the hypotheses are satisfiable: scxml{ p{a b} q } with a transition a -> q -/
def sample : Chart :=
  { states := #[
      { kind := .scxml, typ := .compound, id := "", parent := none, children := [1, 4], completion := [1], trans := [], onentry := [], onexit := [] },
      { kind := .state, typ := .compound, id := "p", parent := some 0, children := [2, 3], completion := [2], trans := [], onentry := [], onexit := [] },
      { kind := .state, typ := .atomic, id := "a", parent := some 1, children := [], completion := [], trans := [0], onentry := [], onexit := [] },
      { kind := .state, typ := .atomic, id := "b", parent := some 1, children := [], completion := [], trans := [], onentry := [], onexit := [] },
      { kind := .state, typ := .atomic, id := "q", parent := some 0, children := [], completion := [], trans := [], onentry := [], onexit := [] }],
    trans := #[{ source := 2, targets := [4], targetless := false, internal := false, event := some "e", cond := .none,
                 hasContent := false, content := [], isHistory := false, isInitial := false }] }

example : Coherent sample = true ∧ plainTrans sample (tr sample 0) = true := by decide
example : transitionDomain sample (tr sample 0) = some 0 ∧ exitSet sample (tr sample 0) = [1, 2, 3, 4] := by decide

end UscxmlVerif.Properties.C05
