import UscxmlVerif.Spec.TStep
import UscxmlVerif.Proofs.ExitSet
/-!
# C18 — the oracle of the VHDL check against Appendix D

Check C18 decides, per document and for every legal configuration, event and condition
valuation, that the emitted equations compute `Spec.TStep.next`. `Spec.TStep` is written over
the transpilers' tables (`Model.Tables`). Proved here, for every coherent chart: the set of
states `TStep` exits is Appendix D's `computeExitSet` of the selected transitions, and the
transitions `TStep.select` picks are pairwise free of Appendix D conflicts. (Entry sets and the
order of selection are compared with the interpreter by the suite `tstep`.)
-/
namespace UscxmlVerif.Properties.C18
open UscxmlVerif UscxmlVerif.Model UscxmlVerif.Spec UscxmlVerif.Proofs.Struct

/-- the states `TStep` exits are Appendix D's exit set of the selected transitions -/
theorem tstep_exit_is_appendix_d (c : Chart) (hc : Coherent c = true) (cfg : List Nat) (sel : List Nat) (S : W3C.SState)
    (hS : S.config = cfg) (hcfg : ConfigOk c cfg)
    (hplain : ∀ i ∈ sel, Properties.C05.plainTrans c (Tables.tr c i) = true) (x : Nat) :
    x ∈ TStep.exitStates c cfg sel ↔ x ∈ W3C.computeExitSet c S sel := by
  have hcoh := coh_of_coherent hc
  unfold TStep.exitStates
  rw [Proofs.ExitSet.w_computeExitSet_mem, hS]
  simp only [List.mem_filter, List.any_eq_true, List.contains_iff_mem]
  have hS' : ConfigOk c S.config := by rw [hS]; exact hcfg
  constructor
  · rintro ⟨hx, ti, hti, hmem⟩
    have hp := Properties.C05.plain_of_plainTrans (hplain ti hti)
    have htr : TStep.tr c ti = Tables.tr c ti := rfl
    rw [htr] at hmem
    have hw : x ∈ W3C.exitSetOf c S ti := (exitSet_eq c hcoh S ti hp.1 hp.2 hS' x).mpr ⟨by rw [hS]; exact hx, hmem⟩
    have := (Proofs.ExitSet.w_computeExitSet_mem c S [ti] x).mp hw
    obtain ⟨t', ht', hne, d, hd, _, hdesc⟩ := this
    simp only [List.mem_singleton] at ht'
    subst ht'
    exact ⟨t', hti, hne, d, hd, hx, hdesc⟩
  · rintro ⟨ti, hti, hne, d, hd, hx, hdesc⟩
    have hp := Properties.C05.plain_of_plainTrans (hplain ti hti)
    have hw : x ∈ W3C.exitSetOf c S ti :=
      (Proofs.ExitSet.w_computeExitSet_mem c S [ti] x).mpr ⟨ti, List.mem_singleton.mpr rfl, hne, d, hd, by rw [hS]; exact hx, hdesc⟩
    have := (exitSet_eq c hcoh S ti hp.1 hp.2 hS' x).mp hw
    exact ⟨hx, ti, hti, this.2⟩

/-- nothing is selected twice and no two selected transitions conflict in the tables' sense -/
def SelFree (c : Chart) (sel : List Nat) : Prop :=
  ∀ i ∈ sel, ∀ j ∈ sel, i ≠ j → Tables.conflicts c i j = false

theorem select_free (c : Chart) (cfg : List Nat) (cv : Nat → Bool) (ev : TStep.Ev) : SelFree c (TStep.select c cfg cv ev) := by
  unfold TStep.select
  suffices h : ∀ (l : List Nat) (acc : List Nat), l.Nodup → (∀ a ∈ acc, a ∉ l) → SelFree c acc →
      SelFree c (l.foldl (fun sel ti =>
        if TStep.enabled c cfg cv ev ti && !sel.any (fun j => Tables.conflicts c ti j) then sel ++ [ti] else sel) acc) from
    h _ [] List.nodup_range (fun a ha => by cases ha) (fun i hi => by cases hi)
  intro l
  induction l with
  | nil => intro acc _ _ h; exact h
  | cons t rest ih =>
    intro acc hnd hdisj hfree
    simp only [List.foldl_cons]
    have hnd' := (List.nodup_cons.mp hnd).2
    have htr := (List.nodup_cons.mp hnd).1
    split
    · rename_i hcond
      simp only [Bool.and_eq_true, Bool.not_eq_eq_eq_not, Bool.not_true] at hcond
      have hno : ∀ j ∈ acc, Tables.conflicts c t j = false := by
        intro j hj
        have := List.any_eq_false.mp hcond.2 j hj
        simpa using this
      apply ih _ hnd'
      · intro a ha
        rcases List.mem_append.mp ha with ha | ha
        · exact fun hm => hdisj a ha (List.mem_cons_of_mem _ hm)
        · simp only [List.mem_singleton] at ha; subst ha; exact htr
      · intro i hi j hj hne
        rcases List.mem_append.mp hi with hi' | hi' <;> rcases List.mem_append.mp hj with hj' | hj'
        · exact hfree i hi' j hj' hne
        · simp only [List.mem_singleton] at hj'
          rw [hj', Properties.C05.conflicts_symm]; exact hno i hi'
        · simp only [List.mem_singleton] at hi'
          rw [hi']; exact hno j hj'
        · simp only [List.mem_singleton] at hi' hj'
          rw [hi', hj'] at hne; exact absurd rfl hne
    · exact ih _ hnd' (fun a ha hm => hdisj a ha (List.mem_cons_of_mem _ hm)) hfree

/-- **the transitions `TStep` selects never conflict in Appendix D's sense**: their exit sets are disjoint in the configuration
the step starts from (the tables' conflict relation contains Appendix D's, `C05.conflict_table_sound`) -/
theorem tstep_selection_conflict_free (c : Chart) (hc : Coherent c = true) (cfg : List Nat) (cv : Nat → Bool) (ev : TStep.Ev)
    (S : W3C.SState) (hS : S.config = cfg) (hcfg : ConfigOk c cfg)
    (hplain : ∀ i ∈ TStep.select c cfg cv ev, Properties.C05.plainTrans c (Tables.tr c i) = true) :
    ∀ i ∈ TStep.select c cfg cv ev, ∀ j ∈ TStep.select c cfg cv ev, i ≠ j →
      ∀ s, ¬ (s ∈ W3C.exitSetOf c S i ∧ s ∈ W3C.exitSetOf c S j) := by
  intro i hi j hj hne s hs
  have hfree := select_free c cfg cv ev i hi j hj hne
  have hS' : ConfigOk c S.config := by rw [hS]; exact hcfg
  have := Properties.C05.conflict_table_sound c hc S i j (hplain i hi) (hplain j hj) hS' s hs.1 hs.2
  rw [hfree] at this
  cases this

end UscxmlVerif.Properties.C18
