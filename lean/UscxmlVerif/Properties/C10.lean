import UscxmlVerif.Model.Api
/-!
# C10 — the interpreter's life-cycle

Statements about `Model.Api`, the model of `Interpreter::step/receive/cancel/reset` on top of both
micro-stepper models. The correspondence suite `api-ops` of check C10 runs random operation
sequences on the compiled interpreter and on `Model.Api.run` and compares every token.

Not modelled (explored by the check's schedule-forcing and thread suites): blocking `step`,
calls from other threads, the tear-down of the timer thread.
-/
namespace UscxmlVerif.Properties.C10
open UscxmlVerif UscxmlVerif.Model UscxmlVerif.Model.Large UscxmlVerif.Model.Api

theorem foldl_pres {α β : Type} (P : β → Prop) (f : β → α → β) (h : ∀ b a, P b → P (f b a)) :
    ∀ (l : List α) (b : β), P b → P (l.foldl f b) := by
  intro l
  induction l with
  | nil => intro b hb; exact hb
  | cons a l ih => intro b hb; exact ih _ (h b a hb)

/-! ## the micro-steppers never touch `finished` outside the finalising step -/

theorem large_enterState_finished (c : Chart) (ts : List Nat) (e : EState) (s : Nat) :
    (Large.enterState c ts e s).finished = e.finished := by
  unfold Large.enterState
  simp only
  repeat' split
  all_goals rfl

theorem large_microstep_finished (c : Chart) (e : EState) (t x ts : List Nat) (o : List (Nat × Nat)) :
    (Large.microstep c e t x ts o).finished = e.finished := by
  unfold Large.microstep
  simp only
  have h3 : ∀ (l : List Nat) (ts' : List Nat) (b : EState),
      (l.foldl (Large.enterState c ts') b).finished = b.finished :=
    fun l ts' b => foldl_pres (fun (e' : EState) => e'.finished = b.finished) _
      (fun b' a hb => by rw [large_enterState_finished]; exact hb) l b rfl
  split <;> simp only [h3] <;>
  · refine foldl_pres (fun (e' : EState) => e'.finished = e.finished) _ ?_ _ _ ?_
    · intro b a hb; split <;> exact hb
    · refine foldl_pres (fun (e' : EState) => e'.finished = e.finished) _ ?_ _ _ rfl
      intro b a hb; exact hb

theorem fast_enterState_finished (c : Chart) (ts : List Nat) (e : EState) (s : Nat) :
    (Fast.enterState c ts e s).finished = e.finished := by
  unfold Fast.enterState
  simp only
  repeat' split
  all_goals rfl

theorem fast_microstep_finished (c : Chart) (e : EState) (t x ts : List Nat) (o : List (Nat × Nat)) :
    (Fast.microstep c e t x ts o).finished = e.finished := by
  unfold Fast.microstep
  simp only
  have h3 : ∀ (l : List Nat) (ts' : List Nat) (b : EState),
      (l.foldl (Fast.enterState c ts') b).finished = b.finished :=
    fun l ts' b => foldl_pres (fun (e' : EState) => e'.finished = b.finished) _
      (fun b' a hb => by rw [fast_enterState_finished]; exact hb) l b rfl
  split <;> simp only [h3] <;>
  · refine foldl_pres (fun (e' : EState) => e'.finished = e.finished) _ ?_ _ _ ?_
    · intro b a hb; split <;> exact hb
    · refine foldl_pres (fun (e' : EState) => e'.finished = e.finished) _ ?_ _ _ rfl
      intro b a hb; exact hb

theorem large_select (c : Chart) (e : EState) (ev : Option String) :
    (Large.selectAndStep c e ev).2 = .microstepped ∧ (Large.selectAndStep c e ev).1.finished = e.finished := by
  unfold Large.selectAndStep
  simp only
  split
  · exact ⟨rfl, rfl⟩
  · exact ⟨rfl, by rw [large_microstep_finished]⟩

theorem fast_select (c : Chart) (e : EState) (ev : Option String) :
    (Fast.selectAndStep c e ev).2 = .microstepped ∧ (Fast.selectAndStep c e ev).1.finished = e.finished := by
  unfold Fast.selectAndStep
  simp only
  split
  · exact ⟨rfl, rfl⟩
  · exact ⟨rfl, by rw [fast_microstep_finished]⟩

/-- a step of an interpreter that is neither finished nor about to finalise -/
theorem large_running (c : Chart) (e : EState) (hf : e.finished = false) (ht : e.topLevelFinal = false) :
    (Large.step c e).1.finished = false ∧ (Large.step c e).2 ≠ .finished ∧ (Large.step c e).2 ≠ .initialized ∧
    ((Large.step c e).2 = .cancelled → (Large.step c e).1.topLevelFinal = true) := by
  unfold Large.step
  simp only [hf, ht, Bool.false_eq_true, if_false]
  repeat' split
  all_goals simp [large_select, large_microstep_finished, hf]

theorem fast_running (c : Chart) (e : EState) (hf : e.finished = false) (ht : e.topLevelFinal = false) :
    (Fast.step c e).1.finished = false ∧ (Fast.step c e).2 ≠ .finished ∧ (Fast.step c e).2 ≠ .initialized ∧
    ((Fast.step c e).2 = .cancelled → (Fast.step c e).1.topLevelFinal = true) := by
  unfold Fast.step
  simp only [hf, ht, Bool.false_eq_true, if_false]
  repeat' split
  all_goals simp [fast_select, fast_microstep_finished, hf]

/-- the exit handlers of the active states, in reverse document order, between the two
completion notices: what the finalising step adds to the observations -/
def finalisation (c : Chart) (e : EState) : XS :=
  (e.config.reverse.foldl (fun x s => execBlocks c e.config (st c s).onexit x) (e.x.emit .bcomp)).emit .acomp

theorem engine_finished (eng : Engine) (c : Chart) (e : EState) (hf : e.finished = true) :
    engineStep eng c e = (e, .finished) := by
  cases eng <;> simp [engineStep, Large.step, Fast.step, hf]

theorem engine_finalising (eng : Engine) (c : Chart) (e : EState) (hf : e.finished = false)
    (ht : e.topLevelFinal = true) :
    engineStep eng c e = ({ e with x := finalisation c e, finished := true }, .finished) := by
  cases eng <;> simp [engineStep, Large.step, Fast.step, hf, ht, finalisation]

theorem engine_running (eng : Engine) (c : Chart) (e : EState) (hf : e.finished = false)
    (ht : e.topLevelFinal = false) :
    (engineStep eng c e).1.finished = false ∧ (engineStep eng c e).2 ≠ .finished ∧
    (engineStep eng c e).2 ≠ .initialized ∧
    ((engineStep eng c e).2 = .cancelled → (engineStep eng c e).1.topLevelFinal = true) := by
  cases eng
  · exact large_running c e hf ht
  · exact fast_running c e hf ht

/-! ## the properties -/

/-- **finished is absorbing**: once `step` has returned FINISHED, every further `step` returns
FINISHED and changes nothing (no handler runs twice, nothing is observed) -/
theorem finished_is_absorbing (eng : Engine) (c : Chart) (e : EState)
    (h : (engineStep eng c e).2 = .finished) :
    engineStep eng c (engineStep eng c e).1 = ((engineStep eng c e).1, .finished) := by
  apply engine_finished
  cases hf : e.finished
  · cases ht : e.topLevelFinal
    · exact absurd h (engine_running eng c e hf ht).2.1
    · rw [engine_finalising eng c e hf ht]
  · rw [engine_finished eng c e hf]; exact hf

/-- **cancelled is followed by exactly one finalising step**: the step after CANCELLED returns
FINISHED and runs the exit handlers of every active state once, innermost first -/
theorem cancelled_then_finalised (eng : Engine) (c : Chart) (e : EState)
    (h : (engineStep eng c e).2 = .cancelled) :
    let e' := (engineStep eng c e).1
    engineStep eng c e' = ({ e' with x := finalisation c e', finished := true }, .finished) := by
  intro e'
  cases hf : e.finished
  · cases ht : e.topLevelFinal
    · have r := engine_running eng c e hf ht
      exact engine_finalising eng c e' r.1 (r.2.2.2 h)
    · rw [engine_finalising eng c e hf ht] at h; cases h
  · rw [engine_finished eng c e hf] at h; cases h

/-- the documented order of `step` results -/
inductive Phase where
  | instantiated | running | cancelled | finished
  deriving Repr, DecidableEq

def Phase.next : Phase → Ret → Option Phase
  | .instantiated, .initialized => some .running
  | .instantiated, _ => none
  | .running, .initialized => none
  | .running, .cancelled => some .cancelled
  | .running, .finished => some .finished
  | .running, _ => some .running
  | .cancelled, .finished => some .finished
  | .cancelled, _ => none
  | .finished, .finished => some .finished
  | .finished, _ => none

/-- the phase a sequence of results (oldest first) leads to, if it follows the life-cycle -/
def phaseAfter : Phase → List Ret → Option Phase
  | p, [] => some p
  | p, r :: rs => (p.next r).bind (fun q => phaseAfter q rs)

theorem phaseAfter_append (p : Phase) (rs : List Ret) (r : Ret) :
    phaseAfter p (rs ++ [r]) = (phaseAfter p rs).bind (fun q => q.next r) := by
  induction rs generalizing p with
  | nil => simp [phaseAfter]
  | cons x xs ih =>
    simp only [List.cons_append, phaseAfter]
    cases p.next x with
    | none => rfl
    | some q => simpa using ih q

/-- the link between the phase and the interpreter state -/
def PhaseInv (p : Phase) (a : Api) : Prop :=
  match p with
  | .instantiated => a.inited = false ∧ a.e.finished = false
  | .running => a.inited = true ∧ a.e.finished = false
  | .cancelled => a.inited = true ∧ a.e.finished = false ∧ a.e.topLevelFinal = true
  | .finished => a.inited = true ∧ a.e.finished = true

def Good (a : Api) : Prop := ∃ p, phaseAfter .instantiated a.rets = some p ∧ PhaseInv p a

theorem good_stepOnce (eng : Engine) (c : Chart) (a : Api) (h : Good a) : Good (stepOnce eng c a).1 := by
  obtain ⟨p, hp, hi⟩ := h
  unfold stepOnce
  by_cases hin : a.inited = true
  · simp only [hin, Bool.not_true, Bool.false_eq_true, if_false]
    cases p with
    | instantiated => simp [PhaseInv, hin] at hi
    | running =>
      obtain ⟨_, hf⟩ := hi
      cases ht : a.e.topLevelFinal
      · have r := engine_running eng c a.e hf ht
        cases hr : (engineStep eng c a.e).2 with
        | initialized => exact absurd hr r.2.2.1
        | finished => exact absurd hr r.2.1
        | cancelled =>
          refine ⟨.cancelled, ?_, ?_⟩
          · simp [phaseAfter_append, hp, Phase.next]
          · exact ⟨rfl, r.1, r.2.2.2 hr⟩
        | idle => exact ⟨.running, by simp [phaseAfter_append, hp, Phase.next], rfl, r.1⟩
        | microstepped => exact ⟨.running, by simp [phaseAfter_append, hp, Phase.next], rfl, r.1⟩
        | macrostepped => exact ⟨.running, by simp [phaseAfter_append, hp, Phase.next], rfl, r.1⟩
      · rw [engine_finalising eng c a.e hf ht]
        exact ⟨.finished, by simp [phaseAfter_append, hp, Phase.next], rfl, rfl⟩
    | cancelled =>
      obtain ⟨_, hf, ht⟩ := hi
      rw [engine_finalising eng c a.e hf ht]
      exact ⟨.finished, by simp [phaseAfter_append, hp, Phase.next], rfl, rfl⟩
    | finished =>
      obtain ⟨_, hf⟩ := hi
      rw [engine_finished eng c a.e hf]
      exact ⟨.finished, by simp [phaseAfter_append, hp, Phase.next], rfl, hf⟩
  · have hin' : a.inited = false := by simpa using hin
    simp only [hin', Bool.not_false, if_true]
    cases p with
    | instantiated =>
      exact ⟨.running, by simp [phaseAfter_append, hp, Phase.next], rfl, hi.2⟩
    | running => simp [PhaseInv, hin'] at hi
    | cancelled => simp [PhaseInv, hin'] at hi
    | finished => simp [PhaseInv, hin'] at hi

theorem good_of_same_flags {a b : Api} (h : Good a) (h1 : b.inited = a.inited) (h2 : b.rets = a.rets)
    (h3 : b.e.finished = a.e.finished) (h4 : b.e.topLevelFinal = a.e.topLevelFinal) : Good b := by
  obtain ⟨p, hp, hi⟩ := h
  refine ⟨p, by rw [h2]; exact hp, ?_⟩
  cases p <;> simp only [PhaseInv, h1, h3, h4] at hi ⊢ <;> exact hi

theorem good_stepObserved (eng : Engine) (c : Chart) (a : Api) (h : Good a) : Good (stepObserved eng c a).1 :=
  good_of_same_flags (good_stepOnce eng c a h) rfl rfl rfl rfl

theorem good_quiesce (eng : Engine) (c : Chart) : ∀ (fuel : Nat) (a : Api), Good a → Good (quiesce eng c fuel a)
  | 0, a, h => good_of_same_flags h rfl rfl rfl rfl
  | fuel + 1, a, h => by
    unfold quiesce
    simp only
    split
    · exact good_stepObserved eng c a h
    · exact good_quiesce eng c fuel _ (good_stepObserved eng c a h)

theorem good_fresh : Good ({} : Api) := ⟨.instantiated, rfl, rfl, rfl⟩

theorem good_applyApi (eng : Engine) (c : Chart) (a : Api) (op : Op) (h : Good a) : Good (applyApi eng c a op) := by
  cases op with
  | step => exact good_stepObserved eng c a h
  | quiesce => exact good_quiesce eng c cap a h
  | receive ev => exact good_of_same_flags h rfl rfl rfl rfl
  | cancel => exact good_of_same_flags h rfl rfl rfl rfl
  | reset => exact h
  | destroy => exact h
  | getState => exact good_of_same_flags h rfl rfl rfl rfl
  | inject ev => exact good_of_same_flags h rfl rfl rfl rfl

theorem good_apply (eng : Engine) (c : Chart) (s : Session) (op : Op) (h : Good s.a) : Good (apply eng c s op).a := by
  cases op with
  | reset => exact good_fresh
  | destroy => exact good_fresh
  | step => exact good_applyApi eng c s.a .step h
  | quiesce => exact good_applyApi eng c s.a .quiesce h
  | receive ev => exact good_applyApi eng c s.a (.receive ev) h
  | cancel => exact good_applyApi eng c s.a .cancel h
  | getState => exact good_applyApi eng c s.a .getState h
  | inject ev => exact good_applyApi eng c s.a (.inject ev) h

theorem good_foldl (eng : Engine) (c : Chart) (ops : List Op) (s : Session) (h : Good s.a) :
    Good (ops.foldl (apply eng c) s).a := by
  induction ops generalizing s with
  | nil => exact h
  | cons op ops ih => exact ih _ (good_apply eng c s op h)

/-- **the results of `step` follow the documented life-cycle**, whatever the chart and whatever
sequence of `step`, run-to-quiescence, `receive`, `cancel`, `reset`, destruction and `getState`
the caller issues: since instantiation (or the last reset) they are INITIALIZED once, then
MICROSTEPPED/MACROSTEPPED/IDLE, possibly CANCELLED followed immediately by FINISHED, and
after FINISHED only FINISHED -/
theorem step_results_follow_lifecycle (eng : Engine) (c : Chart) (ops : List Op) :
    ∃ p, phaseAfter .instantiated (run eng c ops).a.rets = some p :=
  let ⟨p, hp, _⟩ := good_foldl eng c ops {} good_fresh
  ⟨p, hp⟩

theorem run_append (eng : Engine) (c : Chart) (ops1 ops2 : List Op) :
    run eng c (ops1 ++ ops2) = ops2.foldl (apply eng c) (run eng c ops1) := by
  simp [run, List.foldl_append]

theorem foldl_past (eng : Engine) (c : Chart) (ops : List Op) (s : Session) :
    (ops.foldl (apply eng c) s).a = (ops.foldl (apply eng c) { s with past := [] }).a ∧
    (ops.foldl (apply eng c) s).past = (ops.foldl (apply eng c) { s with past := [] }).past ++ s.past := by
  induction ops generalizing s with
  | nil => simp
  | cons op ops ih =>
    simp only [List.foldl_cons]
    have h1 := ih (apply eng c s op)
    have h2 := ih (apply eng c { s with past := [] } op)
    cases op <;> simp only [apply, List.append_nil] at h1 h2 ⊢ <;>
      first
        | exact h1
        | (constructor
           · rw [h1.1, h2.1]
           · rw [h1.2, h2.2]; simp)

/-- **a reset interpreter behaves like a freshly created one**: whatever happened before the
`reset()` (queued events, a pending cancel, a finished or half-way run), the interpreter state
after `ops1; reset; ops2` is the state after `ops2` alone, and so is everything observed after
the reset -/
theorem reset_is_fresh (eng : Engine) (c : Chart) (ops1 ops2 : List Op) :
    (run eng c (ops1 ++ .reset :: ops2)).a = (run eng c ops2).a ∧
    (run eng c (ops1 ++ .reset :: ops2)).past =
      (run eng c ops2).past ++ (Tok.note "reset" :: ((run eng c ops1).a.e.x.obs ++ (run eng c ops1).past)) := by
  rw [run_append]
  simp only [List.foldl_cons, apply]
  have h := foldl_past eng c ops2 { past := Tok.note "reset" :: ((run eng c ops1).a.e.x.obs ++ (run eng c ops1).past), a := {} }
  simpa [run] using h

/-- the same for destruction and re-creation: `reset` and `destroy` are interchangeable -/
theorem reset_equals_recreate (eng : Engine) (c : Chart) (ops1 ops2 : List Op) :
    (run eng c (ops1 ++ .reset :: ops2)).a = (run eng c (ops1 ++ .destroy :: ops2)).a := by
  rw [run_append, run_append]
  simp only [List.foldl_cons, apply]
  rw [(foldl_past eng c ops2 _).1, (foldl_past eng c ops2 { past := Tok.note "destroyed" :: _, a := {} }).1]

/-- **cancel leads to finished**: if the interpreter is quiescent (its last `step` returned IDLE,
nothing is queued), `cancel()` makes the next `step` return CANCELLED and the one after that
FINISHED with every active state's exit handlers run once -/
theorem cancel_when_idle (eng : Engine) (c : Chart) (e : EState)
    (hf : e.finished = false) (ht : e.topLevelFinal = false) (hp : e.pristine = false)
    (hs : e.spontaneous = false) (hst : e.stable = true) (hi : e.x.iq = []) (hq : e.x.eq = []) :
    let e1 := { e with cancelled := true, x := (e.x.emit (.note "cancel")).sendExt "" }
    (engineStep eng c e1).2 = .cancelled ∧
    (engineStep eng c (engineStep eng c e1).1).2 = .finished := by
  intro e1
  have h1 : (engineStep eng c e1).2 = .cancelled := by
    cases eng <;>
      simp [engineStep, Large.step, Fast.step, e1, hf, ht, hp, hs, hst, hi, hq, XS.emit, XS.sendExt]
  exact ⟨h1, by rw [cancelled_then_finalised eng c e1 h1]⟩

/-! non-vacuity: the hypotheses of the conditional theorems are met by concrete states (the
whole life-cycle on concrete charts is what the correspondence suite `api-ops` runs) -/
def idleState : EState := { pristine := false, stable := true }

example (eng : Engine) (c : Chart) : (engineStep eng c { idleState with finished := true }).2 = .finished := by
  rw [engine_finished eng c _ rfl]
example (eng : Engine) (c : Chart) : (engineStep eng c { idleState with cancelled := true }).2 = .cancelled := by
  cases eng <;> simp [engineStep, Large.step, Fast.step, idleState]
example : idleState.finished = false ∧ idleState.topLevelFinal = false ∧ idleState.pristine = false ∧
    idleState.spontaneous = false ∧ idleState.stable = true ∧ idleState.x.iq = [] ∧ idleState.x.eq = [] := by
  decide

end UscxmlVerif.Properties.C10
