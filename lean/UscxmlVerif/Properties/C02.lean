import UscxmlVerif.Spec.Legal
import UscxmlVerif.Model.Fast
import UscxmlVerif.Proofs.CfgInv
import UscxmlVerif.Proofs.Root
import UscxmlVerif.Proofs.ExitClosed
import UscxmlVerif.Proofs.ParentsFast
import UscxmlVerif.Proofs.EntryDoc
import UscxmlVerif.Proofs.DownOk
import UscxmlVerif.Proofs.DownRunFast
import UscxmlVerif.Proofs.RootActive
import UscxmlVerif.Proofs.LegalThm
import UscxmlVerif.Proofs.XorFast
/-!
# C02 — the active configuration is legal after every micro-step (the part that needs no assumption)

`Spec.Legal.legal` has six clauses. Two of them hold for every chart whatsoever - even a malformed
one - and for every sequence of API operations on either engine model: the configuration is
duplicate-free (it is strictly ascending in document order) and holds no pseudo-state
(`<history>`, `<initial>`). The other four (root active, parent closure, exactly one child per
active compound state / all children of a parallel, an atomic state) depend on the chart being
well formed and on the history bookkeeping, where the recorded findings `hist-shared` /
`hist-domain` are counter-examples for the code as it stands; they are decided per run by
`Spec.Legal.legal` on every configuration the compiled engines and the models visit.
-/
namespace UscxmlVerif.Properties.C02
open UscxmlVerif UscxmlVerif.Model UscxmlVerif.Model.Large UscxmlVerif.Model.Api UscxmlVerif.Proofs.CfgInv

/-- **partial** (clauses 2 and 3 of `legal`): after any sequence of operations on either engine, the configuration
is strictly ascending - hence without duplicates - and free of pseudo-states -/
theorem configuration_is_a_set_of_real_states_partial (eng : Engine) (c : Chart) (ops : List Op) :
    (run eng c ops).a.e.config.Pairwise (· < ·) ∧ (run eng c ops).a.e.config.Nodup ∧
      ∀ s ∈ (run eng c ops).a.e.config, (st c s).typ.isPseudo = false := by
  obtain ⟨h1, h2⟩ := run_ok eng c ops
  refine ⟨h1, ?_, h2⟩
  exact List.Pairwise.imp (fun h => Nat.ne_of_lt h) h1

/-- one engine step keeps it, from any state that has it (not only from reachable ones) -/
theorem step_keeps_set (eng : Engine) (c : Chart) (e : EState) (h : EOk c e) : EOk c (engineStep eng c e).1 :=
  engineStep_ok eng c e h

/-- **partial** (clause 1 of `legal`, half of it): the root, once active, is never exited - by either engine, on any chart,
whatever the transitions are (the exit interval of a transition starts after its domain) -/
theorem root_is_never_exited_partial (eng : Engine) (c : Chart) (e : EState) (h : 0 ∈ e.config) :
    0 ∈ (engineStep eng c e).1.config := by
  cases eng
  · exact Proofs.Root.large_step_root c e h
  · exact Proofs.Root.fast_step_root c e h

/-- **partial** (clause 4 of `legal`, the exit half): on every coherent chart numbered in pre-order - in particular `flatten` of every
well-formed document - removing the exit set LargeMicroStep computed from a parent-closed configuration leaves a parent-closed
configuration: exiting never orphans a state. (The entry half depends on the history bookkeeping, where `hist-shared` is a
counter-example for the code as it stands.) -/
theorem exiting_never_orphans_partial (d : Doc) (late : Bool) (hwf : Proofs.Flatten.WFDoc d = true) (hroot : d.kind = .scxml)
    (config : List Nat) (ev : Option String) (pf : List Nat) (xs : XS)
    (hcfg : Proofs.Struct.ConfigOk (flatten d late) config) (hclosed : Proofs.ExitClosed.ParentClosed (flatten d late) config)
    (hplain : ∀ i ∈ (Large.selectLoop (flatten d late) config ev pf { x := xs }).transSet,
      Properties.C05.plainTrans (flatten d late) (Model.Tables.tr (flatten d late) i) = true) :
    Proofs.ExitClosed.ParentClosed (flatten d late)
      (config.filter (fun s => !(Large.selectLoop (flatten d late) config ev pf { x := xs }).exitSet.contains s)) :=
  Proofs.ExitClosed.exit_keeps_parents (flatten d late) (Proofs.Flatten.coherent_flatten d late hwf hroot)
    (Proofs.Subtree.intervalOK_flatten d late hwf hroot) config ev pf xs hcfg hclosed hplain

/-- **partial** (clause 4 of `legal` in full, and the hypothesis `ConfigOk` of the structural theorems of C01/C03, for history-free
charts): on a chart that is coherent, numbered in pre-order, without history states and whose selectable transitions are plain
(`EntryOk`, `SelPlain`, `SelPlainF`: decidable, evaluated on every generated chart by the driver), after every sequence of API
operations on either engine every active state is a state of the chart, the root or a real state, and has its parent active.
With history states the statement is false of the code as it stands (`hist-shared` below). -/
theorem parents_stay_active_partial (c : Chart) (hcoh : Proofs.Struct.Coherent c = true) (hi : Proofs.Interval.IntervalOK c = true)
    (hk : Proofs.EntryClosed.EntryOk c = true) (hp : Proofs.Parents.SelPlain c = true) (hpf : Proofs.ParentsFast.SelPlainF c = true)
    (eng : Engine) (ops : List Op) :
    Proofs.ExitClosed.ParentClosed c (run eng c ops).a.e.config ∧ Proofs.Struct.ConfigOk c (run eng c ops).a.e.config := by
  have hk' := Proofs.EntryClosed.eok_of_entryOk hk
  have h := Proofs.ParentsFast.run_pc c hcoh hi hk' hp hpf eng ops
  exact ⟨h.1, Proofs.Parents.configOk_of_pc hk' h⟩

/-- the same for `flatten` of every well-formed document without `<history>` elements: coherence, the numbering and `EntryOk` are
theorems there; what remains to be evaluated is that the selectable transitions are plain (sources are states, targets resolve to
real states other than the root) -/
theorem parents_stay_active_of_document_partial (d : Doc) (late : Bool) (hwf : Proofs.Flatten.WFDoc d = true) (hroot : d.kind = .scxml)
    (hn : Proofs.EntryDoc.NoHistDoc d = true) (hp : Proofs.Parents.SelPlain (flatten d late) = true)
    (hpf : Proofs.ParentsFast.SelPlainF (flatten d late) = true) (eng : Engine) (ops : List Op) :
    Proofs.ExitClosed.ParentClosed (flatten d late) (run eng (flatten d late) ops).a.e.config ∧
      Proofs.Struct.ConfigOk (flatten d late) (run eng (flatten d late) ops).a.e.config :=
  parents_stay_active_partial (flatten d late) (Proofs.Flatten.coherent_flatten d late hwf hroot)
    (Proofs.Subtree.intervalOK_flatten d late hwf hroot) (Proofs.EntryDoc.entryOk_flatten d late hwf hroot hn) hp hpf eng ops

/-- one engine step keeps the invariant from any state that has it (not only from reachable ones) -/
theorem step_keeps_parents (c : Chart) (hcoh : Proofs.Struct.Coherent c = true) (hi : Proofs.Interval.IntervalOK c = true)
    (hk : Proofs.EntryClosed.EntryOk c = true) (hp : Proofs.Parents.SelPlain c = true) (hpf : Proofs.ParentsFast.SelPlainF c = true)
    (eng : Engine) (e : EState) (h : Proofs.Parents.PC c e) : Proofs.Parents.PC c (engineStep eng c e).1 :=
  Proofs.ParentsFast.engineStep_pc c hcoh hi (Proofs.EntryClosed.eok_of_entryOk hk) hp hpf eng e h

/-- **partial** (clauses 5 and 6 of `legal`, the "at least" halves, both engines, history-free charts): after every sequence of API
operations every active parallel state has all its children active and every active compound state has an active child state. The
chart hypotheses are decidable (`DownOk`: completions and initial transitions point downwards in document order, `<initial>` elements
precede their siblings, children lists are complete, ...) and evaluated on every generated chart. Not covered: "at most one child"
of a compound state, and charts with history states. -/
theorem active_states_are_complete_partial (c : Chart) (hcoh : Proofs.Struct.Coherent c = true) (hi : Proofs.Interval.IntervalOK c = true)
    (hk : Proofs.EntryClosed.EntryOk c = true) (hd : Proofs.DownOk.DownOk c = true) (hp : Proofs.Parents.SelPlain c = true)
    (hpf : Proofs.ParentsFast.SelPlainF c = true) (eng : Engine) (ops : List Op) :
    Proofs.Down.DownClosed c (run eng c ops).a.e.config :=
  (Proofs.DownRunFast.run_dc c hcoh hi (Proofs.EntryClosed.eok_of_entryOk hk) (Proofs.DownOk.dok_of_downOk hd) hp hpf eng ops).2

/-- one step of either engine keeps parent closure and downward completeness, from any state that has them -/
theorem step_keeps_complete (c : Chart) (hcoh : Proofs.Struct.Coherent c = true) (hi : Proofs.Interval.IntervalOK c = true)
    (hk : Proofs.EntryClosed.EntryOk c = true) (hd : Proofs.DownOk.DownOk c = true) (hp : Proofs.Parents.SelPlain c = true)
    (hpf : Proofs.ParentsFast.SelPlainF c = true) (eng : Engine) (e : EState) (h : Proofs.DownRun.DC c e) :
    Proofs.DownRun.DC c (engineStep eng c e).1 :=
  Proofs.DownRunFast.engineStep_dc c hcoh hi (Proofs.EntryClosed.eok_of_entryOk hk) (Proofs.DownOk.dok_of_downOk hd) hp hpf eng e h

/-- **partial** (clause 1 of `legal`, history-free charts, both engines): once the interpreter has taken its first step the root is
active - and stays so (`root_is_never_exited_partial`) -/
theorem root_is_active_partial (c : Chart) (hcoh : Proofs.Struct.Coherent c = true) (hk : Proofs.EntryClosed.EntryOk c = true)
    (hd : Proofs.DownOk.DownOk c = true) (eng : Engine) (ops : List Op) :
    (run eng c ops).a.e.pristine = true ∨ 0 ∈ (run eng c ops).a.e.config :=
  Proofs.RootActive.run_rootInv c (Proofs.Struct.coh_of_coherent hcoh) (Proofs.EntryClosed.eok_of_entryOk hk)
    (Proofs.DownOk.dok_of_downOk hd) eng ops

/-- **C02 for the two interpreter engines on charts without `<history>` and `<initial>` elements** (all six clauses): for every coherent
chart numbered in pre-order that meets the decidable chart conditions (`EntryOk`, `DownOk`, `XorOk`, `SelPlain`, `SelPlainF`: evaluated on
every generated chart), after EVERY sequence of API operations on EITHER engine - once the first step has been taken - the active
configuration is legal in the sense of `Spec.Legal.legal`: it holds the root, is duplicate-free, consists of proper states of the chart,
has every state's parent, exactly one child of every active compound state, all children of every active parallel state, and an atomic
state. (`_partial`: the statement of C02 also covers the generated machines, `<initial>` elements and histories; for histories it is
false of the code, finding `hist-shared`.) -/
theorem configuration_is_legal_partial (c : Chart) (hcoh : Proofs.Struct.Coherent c = true) (hi : Proofs.Interval.IntervalOK c = true)
    (hk : Proofs.EntryClosed.EntryOk c = true) (hd : Proofs.DownOk.DownOk c = true) (hx : Proofs.XorOk.XorOk c = true)
    (hp : Proofs.Parents.SelPlain c = true) (hpf : Proofs.ParentsFast.SelPlainF c = true) (eng : Engine) (ops : List Op)
    (hstarted : (run eng c ops).a.e.pristine = false) :
    Spec.Legal.legal c (run eng c ops).a.e.config = true := by
  have hc := Proofs.Struct.coh_of_coherent hcoh
  have hk' := Proofs.EntryClosed.eok_of_entryOk hk
  have hd' := Proofs.DownOk.dok_of_downOk hd
  obtain ⟨hx', hl⟩ := Proofs.XorOk.xok_of_xorOk hx
  obtain ⟨hdc, hxor⟩ := Proofs.XorFast.run_legalInv c hcoh hi hk' hd' hx' hp hpf eng ops
  have hroot : 0 ∈ (run eng c ops).a.e.config := by
    rcases Proofs.RootActive.run_rootInv c hc hk' hd' eng ops with h | h
    · rw [hstarted] at h; cases h
    · exact h
  exact Proofs.LegalThm.legal_of_invariants c hc hk' hd' hl _ hroot hdc.1.2.2.1 (Proofs.Parents.configOk_of_pc hk' hdc.1) hdc.1.1 hdc.2 hxor

/-- one step of either engine keeps the whole invariant, from any state that has it -/
theorem step_keeps_legal (c : Chart) (hcoh : Proofs.Struct.Coherent c = true) (hi : Proofs.Interval.IntervalOK c = true)
    (hk : Proofs.EntryClosed.EntryOk c = true) (hd : Proofs.DownOk.DownOk c = true) (hx : Proofs.XorOk.XorOk c = true)
    (hp : Proofs.Parents.SelPlain c = true) (hpf : Proofs.ParentsFast.SelPlainF c = true) (e : EState) :
    (Proofs.XorRun.XInv c e → Proofs.XorRun.XInv c (Large.step c e).1) ∧
    (Proofs.XorFast.XInvF c e → Proofs.XorFast.XInvF c (Fast.step c e).1) :=
  ⟨Proofs.XorRun.large_step_xinv c hcoh hi (Proofs.EntryClosed.eok_of_entryOk hk) (Proofs.DownOk.dok_of_downOk hd)
     (Proofs.XorOk.xok_of_xorOk hx).1 hp e,
   Proofs.XorFast.fast_step_xinv c hcoh hi (Proofs.EntryClosed.eok_of_entryOk hk) (Proofs.DownOk.dok_of_downOk hd)
     (Proofs.XorOk.xok_of_xorOk hx).1 hpf e⟩

example : Proofs.XorOk.XorOk Properties.C05.sample = true := by decide

example : Proofs.DownOk.DownOk Properties.C05.sample = true := by decide

/-- the hypotheses hold of a concrete chart with a compound state and a transition out of it -/
example : Proofs.EntryClosed.EntryOk Properties.C05.sample = true ∧ Proofs.Parents.SelPlain Properties.C05.sample = true ∧
    Proofs.ParentsFast.SelPlainF Properties.C05.sample = true := by decide

/-- the full statement is false of the code as it stands (recorded finding `hist-shared`): a configuration the engines
reach on a chart with nested histories holds two children of a compound state. The witness is replayed on the compiled
interpreter by check C02 (known-finding line); here: the configuration is rejected by `legal`. -/
example : Spec.Legal.legal
    { states := #[
        { kind := .scxml, typ := .compound, id := "", parent := none, children := [1], completion := [1], trans := [], onentry := [], onexit := [] },
        { kind := .state, typ := .compound, id := "p", parent := some 0, children := [2, 3], completion := [2], trans := [], onentry := [], onexit := [] },
        { kind := .state, typ := .atomic, id := "a", parent := some 1, children := [], completion := [], trans := [], onentry := [], onexit := [] },
        { kind := .state, typ := .atomic, id := "b", parent := some 1, children := [], completion := [], trans := [], onentry := [], onexit := [] }],
      trans := #[] } [0, 1, 2, 3] = false := by decide

end UscxmlVerif.Properties.C02
