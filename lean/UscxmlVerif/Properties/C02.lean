import UscxmlVerif.Spec.Legal
import UscxmlVerif.Model.Fast
namespace UscxmlVerif.Properties.C02
end UscxmlVerif.Properties.C02
