import UscxmlVerif.Model.DelayQueue
/-!
# C09 — delayed events fire once, not early, unless cancelled; cancel racing delivery is safe

Statements about `Model.DelayQueue`: every interleaving of the timer thread's callback with a
canceller/enqueuer, at the granularity of the sections the C++ runs under `_mutex` and of
the libevent calls. The correspondence suite `dq-schedules` of check C09 forces schedules on the
compiled `BasicDelayedEventQueue` through the `USCXML_VERIF` hooks, records the order of the
atomic sections and replays it through `run`; outcomes must agree.
-/
namespace UscxmlVerif.Properties.C09
open UscxmlVerif.Model.DelayQueue

/-- what must hold of an entry, given where the two actors are -/
structure EntryOk (s : DQ) (i : Nat) (e : Entry) : Prop where
  timerOwned : e.loc = .timerOwned → s.timer = .owning i ∨ s.timer = .done i
  cancOwned : e.loc = .cancOwned → i ∈ s.canc
  armed : e.armed = true → e.loc = .inMap ∨ e.loc = .cancOwned
  once : e.deliveries ≤ 1
  delivered : e.deliveries = 1 → (e.loc = .timerOwned ∧ s.timer = .done i) ∨ e.loc = .freed
  undelivered : e.deliveries = 0 → s.timer ≠ .done i
  notEarly : e.deliveries = 1 → e.due ≤ e.deliveredAt ∧ e.deliveredAt ≤ s.now
  exclusive : e.cancelled = true → e.deliveries = 0 ∧ (e.loc = .cancOwned ∨ e.loc = .freed)
  mapNotCancelled : e.loc = .inMap → e.cancelled = false ∧ e.deliveries = 0

/-- the invariant of the protocol -/
structure Inv (s : DQ) : Prop where
  noFault : s.fault = false
  entries : ∀ i e, s.get i = some e → EntryOk s i e
  entered : ∀ i, s.timer = .entered i → ∃ e, s.get i = some e ∧ (e.loc = .inMap ∨ e.loc = .cancOwned) ∧ e.armed = false
  owning : ∀ i, s.timer = .owning i → ∃ e, s.get i = some e ∧ e.loc = .timerOwned ∧ e.deliveries = 0
  done : ∀ i, s.timer = .done i → ∃ e, s.get i = some e ∧ e.loc = .timerOwned ∧ e.deliveries = 1
  detached : ∀ i, i ∈ s.canc → ∃ e, s.get i = some e ∧ e.loc = .cancOwned
  fired : ∀ i e, s.timer.current = some i → s.get i = some e → e.due ≤ s.now

theorem inv_init : Inv {} := by
  refine ⟨rfl, ?_, ?_, ?_, ?_, ?_, ?_⟩
  · intro i e h; simp [DQ.get] at h
  · intro i h; cases h
  · intro i h; cases h
  · intro i h; cases h
  · intro i h; simp at h
  · intro i e h; cases h

theorem get_put_same (s : DQ) (i : Nat) (e e' : Entry) (h : s.get i = some e) : (s.put i e').get i = some e' := by
  simp only [DQ.get, DQ.put] at *
  have hl : i < s.nodes.length := by
    rcases Nat.lt_or_ge i s.nodes.length with h' | h'
    · exact h'
    · rw [List.getElem?_eq_none (by simpa using h')] at h; cases h
  simp [List.getElem?_set_self, hl]

theorem get_put_ne (s : DQ) (i j : Nat) (e' : Entry) (h : i ≠ j) : (s.put i e').get j = s.get j := by
  simp only [DQ.get, DQ.put]
  exact List.getElem?_set_ne h

theorem current_ne_of {t : Timer} {j : Nat} (h : t.current ≠ some j) :
    t ≠ .entered j ∧ t ≠ .owning j ∧ t ≠ .done j := by
  cases t <;> simp [Timer.current] at h ⊢ <;> exact h

/-- an entry that an action did not touch stays in order when the actors' positions change
only with respect to other entries -/
theorem entryOk_other {s s' : DQ} {j : Nat} {e : Entry} (h : EntryOk s j e)
    (ht : s'.timer = s.timer ∨ (s.timer.current ≠ some j ∧ s'.timer.current ≠ some j))
    (hc : j ∈ s.canc → j ∈ s'.canc)
    (hn : s.now ≤ s'.now) : EntryOk s' j e := by
  have tO : e.loc = .timerOwned → s'.timer = .owning j ∨ s'.timer = .done j := by
    intro hl
    rcases ht with ht | ⟨h1, _⟩
    · rw [ht]; exact h.timerOwned hl
    · have := h.timerOwned hl
      have c := current_ne_of h1
      rcases this with t | t
      · exact absurd t c.2.1
      · exact absurd t c.2.2
  have cO : e.loc = .cancOwned → j ∈ s'.canc := by
    intro hl
    exact hc (h.cancOwned hl)
  refine ⟨tO, cO, h.armed, h.once, ?_, ?_, ?_, h.exclusive, h.mapNotCancelled⟩
  · intro hd
    rcases h.delivered hd with ⟨hl, hdone⟩ | hf
    · rcases ht with ht | ⟨h1, _⟩
      · exact Or.inl ⟨hl, by rw [ht]; exact hdone⟩
      · exact absurd hdone (current_ne_of h1).2.2
    · exact Or.inr hf
  · intro hd
    rcases ht with ht | ⟨_, h2⟩
    · rw [ht]; exact h.undelivered hd
    · exact (current_ne_of h2).2.2
  · intro hd
    have := h.notEarly hd
    exact ⟨this.1, Nat.le_trans this.2 hn⟩

theorem inv_tick (s : DQ) (hi : Inv s) : Inv { s with now := s.now + 1 } := by
  refine ⟨hi.noFault, ?_, hi.entered, hi.owning, hi.done, hi.detached, ?_⟩
  · intro i e h
    exact entryOk_other (s := s) (hi.entries i e h) (Or.inl rfl) id (Nat.le_succ _)
  · intro i e hc hg
    exact Nat.le_trans (hi.fired i e hc hg) (Nat.le_succ _)

theorem timer_cases (t : Timer) (i : Nat) (h : t.current = none ∨ t.current = some i) :
    t = .idle ∨ t = .entered i ∨ t = .owning i ∨ t = .done i := by
  cases t <;> simp [Timer.current] at h ⊢ <;> exact h

/-- the general step: entry `i` is rewritten, and the actors move only with respect to `i` -/
theorem inv_update (s : DQ) (hi : Inv s) (i : Nat) (e e' : Entry) (t' : Timer) (c' : List Nat)
    (hg : s.get i = some e)
    (ht : t' = s.timer ∨ ((s.timer.current = none ∨ s.timer.current = some i) ∧ (t'.current = none ∨ t'.current = some i)))
    (hc : ∀ j, i ≠ j → (j ∈ c' ↔ j ∈ s.canc))
    (hnew : EntryOk { (s.put i e') with timer := t', canc := c' } i e')
    (pe : t' = .entered i → (e'.loc = .inMap ∨ e'.loc = .cancOwned) ∧ e'.armed = false)
    (po : t' = .owning i → e'.loc = .timerOwned ∧ e'.deliveries = 0)
    (pd : t' = .done i → e'.loc = .timerOwned ∧ e'.deliveries = 1)
    (pc : i ∈ c' → e'.loc = .cancOwned)
    (pf : t'.current = some i → e'.due ≤ s.now) :
    Inv { (s.put i e') with timer := t', canc := c' } := by
  have gi : ({ (s.put i e') with timer := t', canc := c' } : DQ).get i = some e' := get_put_same s i e e' hg
  have gj : ∀ j, i ≠ j → ({ (s.put i e') with timer := t', canc := c' } : DQ).get j = s.get j :=
    fun j hne => get_put_ne s i j e' hne
  have tother : ∀ j, i ≠ j → t' = s.timer ∨ (s.timer.current ≠ some j ∧ t'.current ≠ some j) := by
    intro j hne
    rcases ht with h | ⟨h1, h2⟩
    · exact Or.inl h
    · refine Or.inr ⟨?_, ?_⟩
      · rcases h1 with h | h <;> rw [h] <;> simp [hne]
      · rcases h2 with h | h <;> rw [h] <;> simp [hne]
  refine ⟨hi.noFault, ?_, ?_, ?_, ?_, ?_, ?_⟩
  rotate_right
  · intro j ej hcur hj
    by_cases hij : i = j
    · subst hij
      rw [gi] at hj; cases hj
      exact pf hcur
    · rw [gj j hij] at hj
      have hcur' : t'.current = some j := hcur
      rcases tother j hij with h | ⟨_, h⟩
      · exact hi.fired j ej (by rw [← h]; exact hcur') hj
      · exact absurd hcur' h
  · intro j ej hj
    by_cases hij : i = j
    · subst hij
      rw [gi] at hj; cases hj
      exact hnew
    · rw [gj j hij] at hj
      exact entryOk_other (s := s) (hi.entries j ej hj) (tother j hij) (fun h => (hc j hij).2 h) (Nat.le_refl _)
  · intro j hj
    by_cases hij : i = j
    · subst hij; exact ⟨e', gi, pe hj⟩
    · have hj' : t' = .entered j := hj
      rcases tother j hij with h | ⟨_, h⟩
      · obtain ⟨ej, h1, h2⟩ := hi.entered j (by rw [← h]; exact hj')
        exact ⟨ej, by rw [gj j hij]; exact h1, h2⟩
      · rw [hj'] at h; simp [Timer.current] at h
  · intro j hj
    by_cases hij : i = j
    · subst hij; exact ⟨e', gi, po hj⟩
    · have hj' : t' = .owning j := hj
      rcases tother j hij with h | ⟨_, h⟩
      · obtain ⟨ej, h1, h2⟩ := hi.owning j (by rw [← h]; exact hj')
        exact ⟨ej, by rw [gj j hij]; exact h1, h2⟩
      · rw [hj'] at h; simp [Timer.current] at h
  · intro j hj
    by_cases hij : i = j
    · subst hij; exact ⟨e', gi, pd hj⟩
    · have hj' : t' = .done j := hj
      rcases tother j hij with h | ⟨_, h⟩
      · obtain ⟨ej, h1, h2⟩ := hi.done j (by rw [← h]; exact hj')
        exact ⟨ej, by rw [gj j hij]; exact h1, h2⟩
      · rw [hj'] at h; simp [Timer.current] at h
  · intro j hj
    by_cases hij : i = j
    · subst hij; exact ⟨e', gi, pc hj⟩
    · have hj' : j ∈ c' := hj
      obtain ⟨ej, h1, h2⟩ := hi.detached j ((hc j hij).1 hj')
      exact ⟨ej, by rw [gj j hij]; exact h1, h2⟩

theorem set_same {α : Type} (l : List α) (i : Nat) (a : α) (h : l[i]? = some a) : l.set i a = l := by
  apply List.ext_getElem?
  intro j
  by_cases hij : i = j
  · subst hij
    rw [h]
    have : i < l.length := by
      rcases Nat.lt_or_ge i l.length with h' | h'
      · exact h'
      · rw [List.getElem?_eq_none (by simpa using h')] at h; cases h
    simp [this]
  · rw [List.getElem?_set_ne hij]

theorem get_lt {s : DQ} {i : Nat} {e : Entry} (h : s.get i = some e) : i < s.nodes.length := by
  simp only [DQ.get] at h
  rcases Nat.lt_or_ge i s.nodes.length with h' | h'
  · exact h'
  · rw [List.getElem?_eq_none (by simpa using h')] at h; cases h

theorem inv_enqueue (s : DQ) (hi : Inv s) (key due : Nat) :
    Inv { s with nodes := s.nodes ++ [{ key := key, due := due }] } := by
  have gold : ∀ j e, ({ s with nodes := s.nodes ++ [{ key := key, due := due }] } : DQ).get j = some e →
      (s.get j = some e) ∨ (j = s.nodes.length ∧ e = { key := key, due := due }) := by
    intro j e h
    simp only [DQ.get] at h ⊢
    rcases Nat.lt_trichotomy j s.nodes.length with hl | hl | hl
    · left; rwa [List.getElem?_append_left hl] at h
    · right; subst hl; simp at h; exact ⟨rfl, h.symm⟩
    · rw [List.getElem?_eq_none (by simp; omega)] at h; cases h
  have gnew : ∀ j e, s.get j = some e →
      ({ s with nodes := s.nodes ++ [{ key := key, due := due }] } : DQ).get j = some e := by
    intro j e h
    have := get_lt h
    simp only [DQ.get] at h ⊢
    rwa [List.getElem?_append_left this]
  refine ⟨hi.noFault, ?_, ?_, ?_, ?_, ?_, ?_⟩
  rotate_right
  · intro j e hc h
    rcases gold j e h with h | ⟨hj, he⟩
    · exact hi.fired j e hc h
    · have hc' : s.timer.current = some j := hc
      have : ∃ e2, s.get j = some e2 := by
        rcases timer_cases s.timer j (Or.inr hc') with h | h | h | h
        · rw [h] at hc'; cases hc'
        · obtain ⟨e2, h1, _⟩ := hi.entered j h; exact ⟨e2, h1⟩
        · obtain ⟨e2, h1, _⟩ := hi.owning j h; exact ⟨e2, h1⟩
        · obtain ⟨e2, h1, _⟩ := hi.done j h; exact ⟨e2, h1⟩
      obtain ⟨e2, h2⟩ := this
      have := get_lt h2
      omega
  · intro j e h
    rcases gold j e h with h | ⟨hj, he⟩
    · exact entryOk_other (s := s) (hi.entries j e h) (Or.inl rfl) id (Nat.le_refl _)
    · subst he
      refine ⟨(by intro h; cases h), (by intro h; cases h), fun _ => Or.inl rfl, by simp, (by intro h; cases h), ?_,
        (by intro h; cases h), (by intro h; cases h), fun _ => ⟨rfl, rfl⟩⟩
      intro _ hd
      obtain ⟨e, he, _⟩ := hi.done j hd
      have := get_lt he
      omega
  · intro j hj; obtain ⟨e, h1, h2⟩ := hi.entered j hj; exact ⟨e, gnew j e h1, h2⟩
  · intro j hj; obtain ⟨e, h1, h2⟩ := hi.owning j hj; exact ⟨e, gnew j e h1, h2⟩
  · intro j hj; obtain ⟨e, h1, h2⟩ := hi.done j hj; exact ⟨e, gnew j e h1, h2⟩
  · intro j hj; obtain ⟨e, h1, h2⟩ := hi.detached j hj; exact ⟨e, gnew j e h1, h2⟩

theorem lookup_inMap {s : DQ} {key i : Nat} (h : s.lookup key = some i) :
    ∃ e, s.get i = some e ∧ e.loc = .inMap ∧ e.key = key := by
  simp only [DQ.lookup] at h
  have := List.find?_some h
  simp only [DQ.get]
  cases hg : s.nodes[i]? with
  | none => simp [hg] at this
  | some e =>
    simp only [hg, Bool.and_eq_true, beq_iff_eq] at this
    exact ⟨e, rfl, this.1, this.2⟩

/-- **the protocol is safe**: no action that is enabled in a state satisfying the invariant
leads to a fault (use of a freed entry, double free), and the invariant is kept -/
theorem inv_step (s s' : DQ) (a : Act) (hi : Inv s) (h : step s a = some s') : Inv s' := by
  cases a with
  | tick =>
    simp only [step, Option.some.injEq] at h; subst h; exact inv_tick s hi
  | enqueue key due =>
    simp only [step] at h
    split at h
    · simp only [Option.some.injEq] at h; subst h; exact inv_enqueue s hi key due
    · cases h
  | detach key =>
    simp only [step] at h
    split at h
    · rename_i i hl
      obtain ⟨e, hg, hloc, _⟩ := lookup_inMap hl
      rw [hg] at h
      simp only [Option.some.injEq] at h; subst h
      have ok := hi.entries i e hg
      have hm := ok.mapNotCancelled hloc
      refine inv_update s hi i e _ s.timer (i :: s.canc) hg (Or.inl rfl)
        (fun j hij => by simp [Ne.symm hij]) ?_ ?_ ?_ ?_ (fun _ => rfl) (fun hcur => hi.fired i e hcur hg)
      · refine ⟨(by intro h; cases h), fun _ => by simp, fun _ => Or.inr rfl, by simp [hm.2], by simp [hm.2], ?_,
          by simp [hm.2], fun _ => ⟨hm.2, Or.inl rfl⟩, (by intro h; cases h)⟩
        intro _ hd
        obtain ⟨e2, h1, h2, _⟩ := hi.done i hd
        rw [hg] at h1; cases h1; rw [hloc] at h2; cases h2
      · intro ht
        obtain ⟨e2, h1, h2, h3⟩ := hi.entered i ht
        rw [hg] at h1; cases h1
        exact ⟨Or.inr rfl, h3⟩
      · intro ht
        obtain ⟨e2, h1, h2, _⟩ := hi.owning i ht
        rw [hg] at h1; cases h1; rw [hloc] at h2; cases h2
      · intro ht
        obtain ⟨e2, h1, h2, _⟩ := hi.done i ht
        rw [hg] at h1; cases h1; rw [hloc] at h2; cases h2
    · simp only [Option.some.injEq] at h; subst h; exact hi
  | dispose i =>
    simp only [step] at h
    split at h
    · cases h
    · rename_i hmem
      split at h
      · cases h
      · rename_i hcur
        have hmem' : i ∈ s.canc := by simpa using hmem
        obtain ⟨e, hg, hloc⟩ := hi.detached i hmem'
        rw [hg] at h
        simp only [hloc, beq_self_eq_true, if_true, Option.some.injEq] at h; subst h
        have ok := hi.entries i e hg
        have hcur' : s.timer.current ≠ some i := by simpa using hcur
        have tn := current_ne_of hcur'
        refine inv_update s hi i e _ s.timer (s.canc.filter (· != i)) hg (Or.inl rfl)
          (fun j hij => by simp [List.mem_filter, Ne.symm hij]) ?_ ?_ ?_ ?_ (by intro h; simp [List.mem_filter] at h)
          (fun hcur2 => absurd hcur2 hcur')
        · have hd0 : e.deliveries = 0 := by
            have := ok.once
            rcases Nat.lt_or_ge e.deliveries 1 with h | h
            · omega
            · have h1 : e.deliveries = 1 := by omega
              rcases ok.delivered h1 with ⟨hl, _⟩ | hl <;> rw [hloc] at hl <;> cases hl
          refine ⟨(by intro h; cases h), (by intro h; cases h), (by intro h; cases h), ok.once,
            fun _ => Or.inr rfl, fun _ => tn.2.2, by simp [hd0], fun _ => ⟨hd0, Or.inr rfl⟩, (by intro h; cases h)⟩
        · intro ht; exact absurd ht tn.1
        · intro ht; exact absurd ht tn.2.1
        · intro ht; exact absurd ht tn.2.2
  | fire i =>
    simp only [step] at h
    split at h
    · rename_i e ht hg
      split at h
      · rename_i hcond
        simp only [Option.some.injEq] at h; subst h
        simp only [Bool.and_eq_true, decide_eq_true_eq] at hcond
        have ok := hi.entries i e hg
        have hloc := ok.armed hcond.1
        have hd0 : e.deliveries = 0 := by
          rcases Nat.lt_or_ge e.deliveries 1 with h | h
          · omega
          · have h1 : e.deliveries = 1 := by have := ok.once; omega
            rcases ok.delivered h1 with ⟨hl, _⟩ | hl <;> rcases hloc with h2 | h2 <;> rw [h2] at hl <;> cases hl
        refine inv_update s hi i e _ (.entered i) s.canc hg
          (Or.inr ⟨Or.inl (by rw [ht]; rfl), Or.inr rfl⟩) (fun _ _ => Iff.rfl) ?_ (fun _ => ⟨hloc, rfl⟩)
          (by intro h; cases h) (by intro h; cases h) ?_ (fun _ => hcond.2)
        · refine ⟨?_, ok.cancOwned, (by intro h; cases h), ok.once, by simp [hd0], (by intro _ h; cases h),
            by simp [hd0], ok.exclusive, ok.mapNotCancelled⟩
          intro hl; rcases hloc with h2 | h2 <;> rw [h2] at hl <;> cases hl
        · intro hc
          obtain ⟨e2, h1, h2⟩ := hi.detached i hc
          rw [hg] at h1; cases h1; exact h2
      · cases h
    · cases h
  | check =>
    simp only [step] at h
    split at h
    · rename_i i ht
      obtain ⟨e, hg, hloc, harm⟩ := hi.entered i ht
      rw [hg] at h
      have ok := hi.entries i e hg
      rcases hloc with hloc | hloc
      · simp only [hloc, Option.some.injEq] at h; subst h
        have hm := ok.mapNotCancelled hloc
        refine inv_update s hi i e _ (.owning i) s.canc hg
          (Or.inr ⟨Or.inr (by rw [ht]; rfl), Or.inr rfl⟩) (fun _ _ => Iff.rfl) ?_ (by intro h; cases h)
          (fun _ => ⟨rfl, hm.2⟩) (by intro h; cases h) ?_ (fun _ => hi.fired i e (by rw [ht]; rfl) hg)
        · refine ⟨fun _ => Or.inl rfl, (by intro h; cases h), by simp [harm], ok.once, by simp [hm.2],
            (by intro _ h; cases h), by simp [hm.2], by simp [hm.1], (by intro h; cases h)⟩
        · intro hc
          obtain ⟨e2, h1, h2⟩ := hi.detached i hc
          rw [hg] at h1; cases h1; rw [hloc] at h2; cases h2
      · simp only [hloc, Option.some.injEq] at h; subst h
        have := inv_update s hi i e e .idle s.canc hg
          (Or.inr ⟨Or.inr (by rw [ht]; rfl), Or.inl rfl⟩) (fun _ _ => Iff.rfl) ?_ (by intro h; cases h)
          (by intro h; cases h) (by intro h; cases h) (fun _ => hloc) (by intro h; cases h)
        · have hput : s.put i e = s := by
            simp only [DQ.put, DQ.get] at hg ⊢
            congr
            exact set_same _ _ _ hg
          rw [hput] at this
          exact this
        · have hd0 : e.deliveries = 0 := by
            rcases Nat.lt_or_ge e.deliveries 1 with h | h
            · omega
            · have h1 : e.deliveries = 1 := by have := ok.once; omega
              rcases ok.delivered h1 with ⟨hl, _⟩ | hl <;> rw [hloc] at hl <;> cases hl
          exact ⟨(by intro h; rw [hloc] at h; cases h), ok.cancOwned, ok.armed, ok.once, by simp [hd0],
            (by intro _ h; cases h), by simp [hd0], ok.exclusive, (by intro h; rw [hloc] at h; cases h)⟩
    · cases h
  | deliver =>
    simp only [step] at h
    split at h
    · rename_i i ht
      obtain ⟨e, hg, hloc, hd0⟩ := hi.owning i ht
      rw [hg] at h
      simp only [Option.some.injEq] at h; subst h
      have ok := hi.entries i e hg
      have hnc : e.cancelled = false := by
        cases hcz : e.cancelled
        · rfl
        · rcases (ok.exclusive hcz).2 with h | h <;> rw [hloc] at h <;> cases h
      have harm : e.armed = false := by
        cases ha : e.armed
        · rfl
        · rcases ok.armed ha with h | h <;> rw [hloc] at h <;> cases h
      refine inv_update s hi i e _ (.done i) s.canc hg
        (Or.inr ⟨Or.inr (by rw [ht]; rfl), Or.inr rfl⟩) (fun _ _ => Iff.rfl) ?_ (by intro h; cases h)
        (by intro h; cases h) (fun _ => ⟨hloc, by simp [hd0]⟩) ?_ (fun _ => hi.fired i e (by rw [ht]; rfl) hg)
      · refine ⟨fun _ => Or.inr rfl, (by intro h; rw [hloc] at h; cases h), by simp [harm], by simp [hd0],
          fun _ => Or.inl ⟨hloc, rfl⟩, by simp [hd0], ?_, by simp [hnc], (by intro h; rw [hloc] at h; cases h)⟩
        intro _
        exact ⟨hi.fired i e (by rw [ht]; rfl) hg, Nat.le_refl _⟩
      · intro hc
        obtain ⟨e2, h1, h2⟩ := hi.detached i hc
        rw [hg] at h1; cases h1; rw [hloc] at h2; cases h2
    · cases h
  | free =>
    simp only [step] at h
    split at h
    · rename_i i ht
      obtain ⟨e, hg, hloc, hd1⟩ := hi.done i ht
      rw [hg] at h
      simp only [hloc, beq_self_eq_true, if_true, Option.some.injEq] at h; subst h
      have ok := hi.entries i e hg
      refine inv_update s hi i e _ .idle s.canc hg
        (Or.inr ⟨Or.inr (by rw [ht]; rfl), Or.inl rfl⟩) (fun _ _ => Iff.rfl) ?_ (by intro h; cases h)
        (by intro h; cases h) (by intro h; cases h) ?_ (by intro h; cases h)
      rotate_left
      · intro hc
        obtain ⟨e2, h1, h2⟩ := hi.detached i hc
        rw [hg] at h1; cases h1; rw [hloc] at h2; cases h2
      · have hnc : e.cancelled = false := by
          cases hcz : e.cancelled
          · rfl
          · have := (ok.exclusive hcz).1; omega
        refine ⟨(by intro h; cases h), (by intro h; cases h), ?_, ok.once, fun _ => Or.inr rfl, (by intro _ h; cases h),
          ok.notEarly, by simp [hnc], (by intro h; cases h)⟩
        intro ha; rcases ok.armed ha with h | h <;> rw [hloc] at h <;> cases h
    · cases h

theorem inv_run (s s' : DQ) (as : List Act) (hi : Inv s) (h : run s as = some s') : Inv s' := by
  induction as generalizing s with
  | nil => simp only [run, Option.some.injEq] at h; subst h; exact hi
  | cons a as ih =>
    simp only [run] at h
    cases hs : step s a with
    | none => rw [hs] at h; cases h
    | some s1 => rw [hs] at h; exact ih s1 (inv_step s s1 a hi hs) h

/-- how an entry may change in one action: its identity is kept, `cancelled` and the number of
deliveries never go back -/
def Mono (e e' : Entry) : Prop :=
  e'.key = e.key ∧ e'.due = e.due ∧ (e.cancelled = true → e'.cancelled = true) ∧ e.deliveries ≤ e'.deliveries

theorem Mono.refl (e : Entry) : Mono e e := ⟨rfl, rfl, id, Nat.le_refl _⟩
theorem Mono.trans {a b c : Entry} (h1 : Mono a b) (h2 : Mono b c) : Mono a c :=
  ⟨h2.1.trans h1.1, h2.2.1.trans h1.2.1, fun h => h2.2.2.1 (h1.2.2.1 h), Nat.le_trans h1.2.2.2 h2.2.2.2⟩

theorem put_mono (s : DQ) (i j : Nat) (e ej e2 : Entry) (hj : s.get j = some ej) (hR : Mono ej e2)
    (h : s.get i = some e) : ∃ e', (s.put j e2).get i = some e' ∧ Mono e e' := by
  by_cases hij : j = i
  · subst hij
    rw [hj] at h; cases h
    exact ⟨e2, get_put_same s j e e2 hj, hR⟩
  · exact ⟨e, by rw [get_put_ne s j i e2 hij]; exact h, Mono.refl e⟩

theorem step_mono (s s' : DQ) (a : Act) (h : step s a = some s') (i : Nat) (e : Entry) (hg : s.get i = some e) :
    ∃ e', s'.get i = some e' ∧ Mono e e' := by
  cases a with
  | tick => simp only [step, Option.some.injEq] at h; subst h; exact ⟨e, hg, Mono.refl e⟩
  | enqueue key due =>
    simp only [step] at h
    split at h
    · simp only [Option.some.injEq] at h; subst h
      refine ⟨e, ?_, Mono.refl e⟩
      have := get_lt hg
      simp only [DQ.get] at hg ⊢
      rwa [List.getElem?_append_left this]
    · cases h
  | detach key =>
    simp only [step] at h
    split at h
    · rename_i j hl
      obtain ⟨ej, hj, _, _⟩ := lookup_inMap hl
      rw [hj] at h
      simp only [Option.some.injEq] at h; subst h
      exact put_mono s i j e ej _ hj ⟨rfl, rfl, fun _ => rfl, Nat.le_refl _⟩ hg
    · simp only [Option.some.injEq] at h; subst h; exact ⟨e, hg, Mono.refl e⟩
  | dispose j =>
    simp only [step] at h
    split at h
    · cases h
    · split at h
      · cases h
      · split at h
        · rename_i ej hj
          split at h
          · simp only [Option.some.injEq] at h; subst h
            exact put_mono s i j e ej _ hj ⟨rfl, rfl, id, Nat.le_refl _⟩ hg
          · simp only [Option.some.injEq] at h; subst h; exact ⟨e, hg, Mono.refl e⟩
        · simp only [Option.some.injEq] at h; subst h; exact ⟨e, hg, Mono.refl e⟩
  | fire j =>
    simp only [step] at h
    split at h
    · rename_i ej _ hj
      split at h
      · simp only [Option.some.injEq] at h; subst h
        exact put_mono s i j e ej _ hj ⟨rfl, rfl, id, Nat.le_refl _⟩ hg
      · cases h
    · cases h
  | check =>
    simp only [step] at h
    split at h
    · rename_i j _
      split at h
      · rename_i ej hj
        split at h
        · simp only [Option.some.injEq] at h; subst h
          exact put_mono s i j e ej _ hj ⟨rfl, rfl, id, Nat.le_refl _⟩ hg
        all_goals (simp only [Option.some.injEq] at h; subst h; exact ⟨e, hg, Mono.refl e⟩)
      · simp only [Option.some.injEq] at h; subst h; exact ⟨e, hg, Mono.refl e⟩
    · cases h
  | deliver =>
    simp only [step] at h
    split at h
    · rename_i j _
      split at h
      · rename_i ej hj
        simp only [Option.some.injEq] at h; subst h
        exact put_mono s i j e ej _ hj ⟨rfl, rfl, id, Nat.le_succ _⟩ hg
      · simp only [Option.some.injEq] at h; subst h; exact ⟨e, hg, Mono.refl e⟩
    · cases h
  | free =>
    simp only [step] at h
    split at h
    · rename_i j _
      split at h
      · rename_i ej hj
        split at h
        · simp only [Option.some.injEq] at h; subst h
          exact put_mono s i j e ej _ hj ⟨rfl, rfl, id, Nat.le_refl _⟩ hg
        · simp only [Option.some.injEq] at h; subst h; exact ⟨e, hg, Mono.refl e⟩
      · simp only [Option.some.injEq] at h; subst h; exact ⟨e, hg, Mono.refl e⟩
    · cases h

theorem run_mono (s s' : DQ) (as : List Act) (h : run s as = some s') (i : Nat) (e : Entry) (hg : s.get i = some e) :
    ∃ e', s'.get i = some e' ∧ Mono e e' := by
  induction as generalizing s e with
  | nil => simp only [run, Option.some.injEq] at h; subst h; exact ⟨e, hg, Mono.refl e⟩
  | cons a as ih =>
    simp only [run] at h
    cases hs : step s a with
    | none => rw [hs] at h; cases h
    | some s1 =>
      rw [hs] at h
      obtain ⟨e1, h1, m1⟩ := step_mono s s1 a hs i e hg
      obtain ⟨e2, h2, m2⟩ := ih s1 h e1 h1
      exact ⟨e2, h2, m1.trans m2⟩

/-! ## the properties, for every schedule -/

/-- **no use after free, no double free, in every interleaving** of the timer callback's
sections with `enqueueDelayed` / `cancelDelayed` / `cancelAllDelayed` -/
theorem no_fault (as : List Act) (s : DQ) (h : run {} as = some s) : s.fault = false :=
  (inv_run {} s as inv_init h).noFault

/-- **a delayed event is delivered at most once, and not before it is due** -/
theorem once_and_not_early (as : List Act) (s : DQ) (h : run {} as = some s) (i : Nat) (e : Entry)
    (hg : s.get i = some e) : e.deliveries ≤ 1 ∧ (e.deliveries = 1 → e.due ≤ e.deliveredAt) :=
  let ok := (inv_run {} s as inv_init h).entries i e hg
  ⟨ok.once, fun hd => (ok.notEarly hd).1⟩

/-- **cancel and delivery exclude each other**: an event that a cancel found (at whatever point
of the race) is not delivered — neither before … -/
theorem cancelled_not_delivered (as : List Act) (s : DQ) (h : run {} as = some s) (i : Nat) (e : Entry)
    (hg : s.get i = some e) (hc : e.cancelled = true) : e.deliveries = 0 :=
  ((inv_run {} s as inv_init h).entries i e hg).exclusive hc |>.1

/-- … nor at any later time, whatever happens afterwards: **after a cancel that found the
event, the event is never delivered** -/
theorem cancelled_never_delivered (as bs : List Act) (s s' : DQ) (h : run {} as = some s) (h' : run s bs = some s')
    (i : Nat) (e : Entry) (hg : s.get i = some e) (hc : e.cancelled = true) :
    ∃ e', s'.get i = some e' ∧ e'.deliveries = 0 := by
  obtain ⟨e', hg', m⟩ := run_mono s s' bs h' i e hg
  have hi' := inv_run s s' bs (inv_run {} s as inv_init h) h'
  exact ⟨e', hg', ((hi'.entries i e' hg').exclusive (m.2.2.1 hc)).1⟩

/-- a delivery is never undone or repeated later -/
theorem delivered_stays_once (as bs : List Act) (s s' : DQ) (h : run {} as = some s) (h' : run s bs = some s')
    (i : Nat) (e : Entry) (hg : s.get i = some e) (hd : e.deliveries = 1) :
    ∃ e', s'.get i = some e' ∧ e'.deliveries = 1 := by
  obtain ⟨e', hg', m⟩ := run_mono s s' bs h' i e hg
  have hi' := inv_run s s' bs (inv_run {} s as inv_init h) h'
  have := (hi'.entries i e' hg').once
  exact ⟨e', hg', by have := m.2.2.2; omega⟩

/-- **no deadlock**: whenever one of the two actors is in the middle of its work, some action of
the protocol is enabled (the timer thread can always finish its callback; a canceller waits in
`event_del` only while the callback of that very event runs) -/
theorem no_deadlock (as : List Act) (s : DQ) (h : run {} as = some s)
    (busy : s.timer ≠ .idle ∨ s.canc ≠ []) :
    (step s .check).isSome ∨ (step s .deliver).isSome ∨ (step s .free).isSome ∨ ∃ i ∈ s.canc, (step s (.dispose i)).isSome := by
  have hi := inv_run {} s as inv_init h
  cases ht : s.timer with
  | entered i =>
    obtain ⟨e, hg, hl, _⟩ := hi.entered i ht
    left
    simp only [step, ht, hg]
    rcases hl with hl | hl <;> simp [hl]
  | owning i =>
    obtain ⟨e, hg, _⟩ := hi.owning i ht
    right; left
    simp [step, ht, hg]
  | done i =>
    obtain ⟨e, hg, hl, _⟩ := hi.done i ht
    right; right; left
    simp [step, ht, hg, hl]
  | idle =>
    rcases busy with b | b
    · exact absurd ht b
    · cases hc : s.canc with
      | nil => exact absurd hc b
      | cons i rest =>
        have hm : i ∈ s.canc := by rw [hc]; simp
        obtain ⟨e, hg, hl⟩ := hi.detached i hm
        right; right; right
        refine ⟨i, by simp, ?_⟩
        simp [step, hc, ht, Timer.current, hg, hl]

/-- the protocol before the repair dead-locks: timer fires, canceller takes the mutex and waits in
`event_del` for the callback, the callback waits for the mutex -/
theorem old_protocol_deadlocks :
    ∃ s, Old.run {} [.fire, .cancelBegin] = some s ∧ Old.stuck s = true := ⟨_, rfl, by decide⟩

/-- … and also in the second window: after delivering, before erasing the map entry -/
theorem old_protocol_deadlocks_after_delivery :
    ∃ s, Old.run {} [.fire, .lock1, .deliver, .cancelBegin] = some s ∧ Old.stuck s = true := ⟨_, rfl, by decide⟩

/-! non-vacuity: a race in which the cancel wins, and one in which the delivery wins -/
example : (run {} [.enqueue 7 1, .tick, .fire 0, .detach 7, .check, .dispose 0]).map (fun s => (s.fault, s.nodes.map (·.deliveries))) =
    some (false, [0]) := by decide
example : (run {} [.enqueue 7 1, .tick, .fire 0, .check, .detach 7, .deliver, .free]).map (fun s => (s.fault, s.nodes.map (·.deliveries))) =
    some (false, [1]) := by decide
/-- the canceller really waits: `dispose` is not enabled while the callback of its event runs -/
example : run {} [.enqueue 7 1, .tick, .fire 0, .detach 7, .dispose 0] = none := by decide

end UscxmlVerif.Properties.C09
