"""Shared machinery of the uSCXML Lean-4 verification checks (see DESIGN.md sections 3 and 5).

Every check is `bin/check <ID> --tier quick|thorough [--replay FILE]`; the per-property
logic lives in checks/<id>.py and uses a `Ctx` from here for: building /repo's current tree
(guard on) and the harness, building + auditing the Lean library, running harness and model
driver on the same request lines, triage, evidence and VIOLATION / KNOWN-FINDING lines.
"""
import json, os, re, subprocess, sys, time, hashlib, random, shutil

VERIF = os.path.dirname(os.path.dirname(os.path.abspath(__file__)))
REPO = os.environ.get("VERIF_REPO", "/repo")
WORK = os.path.join(VERIF, ".work")
LEAN = os.path.join(VERIF, "lean")
DRIVER = os.path.join(LEAN, ".lake", "build", "bin", "uvdriver")
ALLOWED_AXIOMS = {"propext", "Classical.choice", "Quot.sound"}
FORBIDDEN = re.compile(r"\b(sorry|admit|native_decide|bv_decide|implemented_by|unsafe|maxHeartbeats 0)\b|^axiom\s", re.M)

TRUSTED_BASE = [
    "Lean 4.33.0 kernel (lake build; leanchecker in the thorough tier)",
    "axioms: at most propext, Classical.choice, Quot.sound (audited with #print axioms on every run); no sorry/admit/native_decide/bv_decide/own axioms",
    "Lean compiler: uvdriver executes the same definitions the theorems are about",
    "hand-written model tied to the code by the differential correspondence (uvharness vs uvdriver) on the inputs listed under coverage",
    "g++, libstdc++, Xerces, Lua, libevent as executors of the real code",
]


class BrokenTie(Exception):
    """the machinery could not be (re)built against the current tree"""
    def __init__(self, stage, detail):
        Exception.__init__(self, stage + ": " + detail[:400])
        self.stage, self.detail = stage, detail


def sh(cmd, **kw):
    kw.setdefault("stdout", subprocess.PIPE)
    kw.setdefault("stderr", subprocess.STDOUT)
    kw.setdefault("universal_newlines", True)
    return subprocess.run(cmd, **kw)


def strip_lean_comments(src):
    # remove /- ... -/ (nested) and -- line comments, and string literals
    out, i, depth, n = [], 0, 0, len(src)
    while i < n:
        if src.startswith("/-", i):
            depth += 1; i += 2; continue
        if depth and src.startswith("-/", i):
            depth -= 1; i += 2; continue
        if depth:
            i += 1; continue
        if src.startswith("--", i):
            while i < n and src[i] != "\n": i += 1
            continue
        if src[i] == '"':
            i += 1
            while i < n and src[i] != '"':
                i += 2 if src[i] == "\\" else 1
            i += 1; continue
        out.append(src[i]); i += 1
    return "".join(out)


class Ctx:
    def __init__(self, prop, tier, seed, replaying=False):
        self.prop, self.tier, self.seed = prop, tier, seed
        self.t0 = time.time()
        self.rng = random.Random(seed)
        self.violations = []          # (replay path, found_input)
        self.known_hits = {}          # finding key -> count
        self.coverage = {"samples": [], "suites": {}}
        self.theorems = []
        self.assumptions = []
        self.notes = []
        self.findings = load_known_findings(prop)
        os.makedirs(os.path.join(WORK, "replays"), exist_ok=True)
        import glob
        if not replaying:     # a replay run reads these files
            for f in glob.glob(os.path.join(WORK, "replays", "%s-%s-%d-*" % (prop, tier, seed))): os.remove(f)
        os.makedirs(os.path.join(VERIF, "evidence"), exist_ok=True)

    # ---------------------------------------------------------------- build
    def build_repo(self, variants=("plain",)):
        r = sh([os.path.join(VERIF, "bin", "vbuild")] + list(variants))
        if r.returncode != 0:
            raise BrokenTie("build-repo", r.stdout)

    def build_harness(self, variant="plain"):
        build = os.path.join(WORK, "build-" + variant)
        out = os.path.join(WORK, "harness-" + variant)
        gen = os.path.join(WORK, "gen")
        os.makedirs(out, exist_ok=True); os.makedirs(gen, exist_ok=True)
        extract_scaffold(gen)
        extra = ""
        if variant == "asan":
            extra = "-fsanitize=address,undefined -fno-sanitize-recover=all -fno-omit-frame-pointer"
        elif variant == "tsan":
            extra = "-fsanitize=thread"
        r = sh(["flock", os.path.join(WORK, ".harness.lock"), "make", "-s", "-j16", "-C", os.path.join(VERIF, "harness"),
                "BUILD=" + build, "OUT=" + out, "GEN=" + gen, "REPO=" + REPO, "EXTRA=" + extra])
        if r.returncode != 0:
            raise BrokenTie("build-harness", r.stdout)
        return os.path.join(out, "uvharness")

    def build_lean(self, modules=()):
        """the executable model (uvdriver) and the given modules of the proof library - not the whole library: a theorem
        of another property that no longer checks (its own check reports that) must not fail this one"""
        r = sh(["flock", os.path.join(WORK, ".lake.lock"), "lake", "build", "uvdriver"] + list(modules), cwd=LEAN)
        if r.returncode != 0:
            raise BrokenTie("lake-build", r.stdout[-3000:])
        return r.stdout

    def setup(self, variants=("plain",)):
        """build everything; returns path of harness for first variant"""
        self.build_repo(variants)
        hs = [self.build_harness(v) for v in variants]
        self.build_lean()
        self.harness = hs[0]
        self.harnesses = dict(zip(variants, hs))
        return self.harness

    # ---------------------------------------------------------------- audit
    def audit(self, theorems, files):
        """theorems: list of (lean name, status, what it says). Greps the sources of the
        Lean library for forbidden constructs and prints the axioms of every theorem."""
        bad = []
        for root, _, fs in os.walk(LEAN):
            if ".lake" in root: continue
            for f in fs:
                if not f.endswith(".lean"): continue
                p = os.path.join(root, f)
                m = FORBIDDEN.search(strip_lean_comments(open(p).read()))
                if m: bad.append("%s: %s" % (os.path.relpath(p, LEAN), m.group(0).strip()))
        if bad:
            raise BrokenTie("audit-grep", "; ".join(bad))
        self.build_lean(files)
        imports = "\n".join("import " + f for f in files)
        body = "\n".join("#print axioms %s" % t[0] for t in theorems)
        path = os.path.join(WORK, "audit_%s.lean" % self.prop)
        open(path, "w").write(imports + "\n" + body + "\n")
        r = sh(["lake", "env", "lean", path], cwd=LEAN)
        if r.returncode != 0:
            raise BrokenTie("audit-axioms", r.stdout[-2000:])
        # parse: "'name' depends on axioms: [a, b]" or "'name' does not depend on any axioms"
        txt = r.stdout.replace("\n ", " ")
        seen = {}
        for m in re.finditer(r"'([^']+)' (does not depend on any axioms|depends on axioms: \[([^\]]*)\])", txt):
            ax = [a.strip() for a in (m.group(3) or "").split(",") if a.strip()]
            seen[m.group(1)] = ax
        for name, status, what in theorems:
            if name not in seen:
                raise BrokenTie("audit-axioms", "theorem %s not reported: %s" % (name, r.stdout[-500:]))
            extra = [a for a in seen[name] if a not in ALLOWED_AXIOMS]
            if extra:
                raise BrokenTie("audit-axioms", "theorem %s uses axioms %s" % (name, extra))
            self.theorems.append({"name": name, "status": status, "statement": what, "axioms": seen[name]})

    def leanchecker(self, module):
        r = sh(["lake", "env", "leanchecker", module], cwd=LEAN)
        if r.returncode != 0:
            raise BrokenTie("leanchecker", r.stdout[-1500:])
        self.notes.append("leanchecker %s ok" % module)

    # ---------------------------------------------------------------- running
    def run_lines(self, exe_argv, lines, timeout=600, env=None):
        e = dict(os.environ); e["USCXML_NOCACHE_FILES"] = "1"
        if env: e.update(env)
        p = subprocess.run(exe_argv, input="".join(l + "\n" for l in lines), stdout=subprocess.PIPE,
                           stderr=subprocess.PIPE, universal_newlines=True, timeout=timeout, env=e)
        return p.returncode, p.stdout.split("\n")[:-1] if p.stdout.endswith("\n") else p.stdout.split("\n"), p.stderr

    def harness_lines(self, cmd, lines, args=(), variant=None, **kw):
        h = self.harnesses[variant] if variant else self.harness
        return self.run_lines([h, cmd] + list(args), lines, **kw)

    def driver_lines(self, cmd, lines, **kw):
        rc, out, err = self.run_lines([DRIVER, cmd], lines, **kw)
        if rc != 0 or len(out) != len(lines):
            raise BrokenTie("driver", "uvdriver %s rc=%s out=%d/%d %s" % (cmd, rc, len(out), len(lines), err[-300:]))
        return out

    # ---------------------------------------------------------------- reporting
    def replay_path(self, tag):
        return os.path.join(WORK, "replays", "%s-%s-%d-%s.txt" % (self.prop, self.tier, self.seed, tag))

    def violation(self, tag, suite, lines, found_input=True, detail=""):
        path = self.replay_path(tag)
        with open(path, "w") as f:
            f.write("property=%s suite=%s seed=%d found_input=%s\n" % (self.prop, suite, self.seed, found_input))
            if detail: f.write("# " + detail.replace("\n", "\n# ") + "\n")
            for l in lines: f.write(l + "\n")
        self.violations.append((path, found_input))
        print("VIOLATION property=%s replay=%s%s" % (self.prop, path, "" if found_input else " no-failing-input-found"))
        sys.stdout.flush()

    def known(self, key, text):
        if key not in self.known_hits:
            self.known_hits[key] = 0
        self.known_hits[key] += 1

    def add_suite(self, name, **kw):
        self.coverage["suites"][name] = kw

    def sample(self, s):
        if len(self.coverage["samples"]) < 12:
            self.coverage["samples"].append(s)

    def finish(self, level="proof", obligations=None, discharged=None, extra=None):
        for key, f in self.findings.items():
            if f["kind"] == "finding" and self.known_hits.get(key, 0) > 0:
                print("KNOWN-FINDING: property=%s %s (%d inputs this run)" % (self.prop, f["text"], self.known_hits[key]))
        cov = dict(self.coverage)
        nthm = len(self.theorems)
        nsuites = len(cov["suites"])
        ob = obligations if obligations is not None else nthm + nsuites
        broken = len(self.violations)
        cov.update({
            "obligations": ob,
            "discharged": discharged if discharged is not None else max(0, ob - broken),
            "checker_cmd": "cd /verif/lean && lake build && lake env lean ../.work/audit_%s.lean  (then bin/check %s --tier %s)" % (self.prop, self.prop, self.tier),
            "trusted_base": TRUSTED_BASE,
            "theorems": self.theorems,
            "known_finding_hits": self.known_hits,
            "notes": self.notes,
        })
        if extra: cov.update(extra)
        if not cov["samples"]:
            cov["samples"] = ["(no samples recorded)"]
        ev = {
            "property_id": self.prop, "tier": self.tier, "seed": self.seed, "level": level,
            "coverage": cov, "assumptions": self.assumptions,
            "wall_s": round(time.time() - self.t0, 2), "violations": broken,
        }
        with open(os.path.join(VERIF, "evidence", self.prop + ".json"), "w") as f:
            json.dump(ev, f, indent=1, sort_keys=True)
        return 1 if broken else 0


# -------------------------------------------------------------------- generic replay
def generic_replay(ctx, path, rules, variants=("plain",)):
    """re-run the request lines of a replay file and print what the compiled code (I) and the Lean model (M) answer.
    rules: list of (prefix of the line or None, harness command or None, driver command or None, harness variant)"""
    ctx.setup(variants=variants)
    head = [l.rstrip("\n") for l in open(path) if l.startswith(("#", "property="))]
    for l in head[:6]: print(l[:1500])
    n = 0
    for line in open(path):
        l = line.rstrip("\n")
        if not l or l.startswith(("#", "property=")) or ("\t" not in l and "|" not in l and " " not in l): continue
        for prefix, hcmd, dcmd, variant in rules:
            if prefix is None or l.startswith(prefix):
                print("request:", l[:600])
                if hcmd:
                    rc, h, err = ctx.harness_lines(hcmd, [l], variant=variant, timeout=600)
                    print("I:", (h[0] if h else "(no output, rc=%s %s)" % (rc, err[-200:]))[:6000])
                if dcmd:
                    try: print("M:", ctx.driver_lines(dcmd, [l], timeout=600)[0][:6000])
                    except BrokenTie as e: print("M: (driver refused: %s)" % e.detail[:200])
                n += 1
                break
    if n == 0: print("no request line in %s (the file names a theorem or correspondence that no longer checks)" % path)
    return 0


# -------------------------------------------------------------------- known findings
def load_known_findings(prop):
    """known_findings.txt lines:
       finding: property=<id> key=<key> <text>
       fixed: property=<id> <commit> <text>        (suppresses nothing)"""
    res = {}
    p = os.path.join(VERIF, "known_findings.txt")
    if not os.path.exists(p): return res
    for line in open(p):
        line = line.strip()
        m = re.match(r"finding: property=(\S+) key=(\S+) (.*)", line)
        if m and m.group(1) == prop:
            res[m.group(2)] = {"kind": "finding", "text": "key=%s %s" % (m.group(2), m.group(3))}
    return res


# -------------------------------------------------------------------- scaffold extraction
def extract_function(src, signature_re):
    m = re.search(signature_re, src)
    if not m: return None
    i = src.index("{", m.end() - 1) if src[m.end() - 1] != "{" else m.end() - 1
    depth, j = 0, i
    while j < len(src):
        if src[j] == "{": depth += 1
        elif src[j] == "}":
            depth -= 1
            if depth == 0: return src[m.start():j + 1]
        j += 1
    return None


def extract_scaffold(gen):
    """cut the gen-c scaffolding's own nameMatch out of test/src/test-gen-c.cpp (C12)"""
    src = open(os.path.join(REPO, "test/src/test-gen-c.cpp"), errors="replace").read()
    fn = extract_function(src, r"static bool nameMatch\(const std::string&\s*eventDescs, const std::string&\s*eventName\)\s*\{")
    if fn is None:
        raise BrokenTie("extract-scaffold", "static bool nameMatch(...) not found in test/src/test-gen-c.cpp")
    path = os.path.join(gen, "scaffold_namematch.inc")
    old = open(path).read() if os.path.exists(path) else None
    if old != fn:
        open(path, "w").write(fn)


def chunks(lst, n):
    for i in range(0, len(lst), n):
        yield lst[i:i + n]


def hexs(b):
    if isinstance(b, str): b = b.encode("latin-1")
    return b.hex() if b else "-"
