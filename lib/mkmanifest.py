#!/usr/bin/env python3
"""Regenerates /verif/MANIFEST.json from the table below (kept in one place so it is always valid)."""
import json, os
VERIF = os.path.dirname(os.path.dirname(os.path.abspath(__file__)))

CHECKS = {
 "C12": dict(
   technique="Lean 4 proof (loop invariant + token-prefix lemma) about a hand model of nameMatch, tied by exhaustive+random differential correspondence",
   text="Theorems nameMatch_eq_spec (all well-formed descriptor lists and names: model = Recommendation 3.12.1) and scanner_visits_every_descriptor (all byte strings) are kernel-checked on every run; the model is the transliteration of uscxml::nameMatch and is compared with the compiled matcher and with the copy cut out of test-gen-c.cpp on every (list, name) over 'ab.* ' up to a length bound and on random structured/arbitrary inputs. The matches the Promela and VHDL back-ends resolve at transform time (prefix trie over the document's event names) are read out of the emitted text and compared with the Recommendation's relation (suite static-resolution; translation validation, the trie is not modelled).",
   design_ref="6 / C12",
   note="Trusted: Lean kernel, axioms propext/Classical.choice/Quot.sound at most, the hand model (validated exhaustively on the small alphabet, sampled beyond), C-locale isspace. Static resolution in Promela/VHDL output is validated on the emitted text (suite static-resolution)."),
}
ENGINE_NOTE = "Trusted: the hand models Model.Large/Model.Fast/Model.Exec and the transcription Spec.W3C of Appendix D (tied to the compiled interpreter by the differential suites on the full monitor alphabet), Xerces, the null datamodel; executable content fragment: raise/send/log/if/failing send; no invoke, no delayed send."
CHECKS.update({
 "C01": dict(category="exploration",
   technique="three-way differential: compiled interpreter = Lean model of LargeMicroStep = Lean transcription of W3C Appendix D; Lean theorems about the model for one clause of the algorithm (pre-emption) and for the numbering the engines rely on",
   text="Every input must satisfy I = Model.Large on the full monitor alphabet and abs(I) = Spec.W3C.run (Appendix D); inputs in the two recorded finding classes must follow the specification with exactly the documented quirk. Exhaustive small charts, seeded random charts, corpus of witnesses of repaired defects. Proved (Lean, every well-formed document, any size): the set of transitions LargeMicroStep selects is conflict-free in Appendix D's sense (selection_conflict_free_w3c_of_document), the engine's transition domain is Appendix D's, descendants are document-order intervals (desc_interval, intervalOK_flatten). The refinement of the whole step (Model.Large = Spec.W3C) is not proved, hence 'exploration' and not 'proof'.",
   design_ref="6 / C01", note=ENGINE_NOTE),
 "C02": dict(category="proof",
   technique="Lean theorem: the active configuration of both engine models is legal (Spec.Legal.legal, all six clauses) after every sequence of API operations, for charts without <history>/<initial> elements that meet decidable chart conditions (evaluated on every generated chart); invariants by induction over operations (parent closure, downward completeness via the entry loops' visiting order, at most one child via conflict-free selection); Spec.Legal.legal evaluated on every configuration both compiled engines report",
   text="configuration_is_legal_partial: for every coherent pre-order chart without history and initial elements meeting EntryOk/DownOk/XorOk/SelPlain/SelPlainF (decidable; Coherent, IntervalOK and EntryOk are theorems for well-formed documents), both engines, every operation sequence: after the first step the configuration holds the root, is duplicate-free, consists of proper states, has every state's parent, exactly one child of every active compound state, all children of every active parallel and an atomic state. Without the restriction to history-free charts the statement is false of the code (recorded finding hist-shared: nested histories); charts with <initial> elements have clauses 1-4 and the 'at least' halves of 5-6 proved (parents_stay_active_partial, active_states_are_complete_partial), 'at most one child' by exploration. Every configuration reported after every step() of both compiled engines is checked against Recommendation 3.11 by the same Lean predicate; the models are tied to the engines by trace equality (C01/C03/C13).",
   design_ref="6 / C02", note=ENGINE_NOTE),
 "C03": dict(category="exploration",
   technique="direct differential of the two compiled engines on the full observation alphabet + each against its Lean model; Lean theorems that hold of both engine models alike",
   text="Large and Fast engines run the same charts/histories; traces (monitor notifications, logs, step() results, configurations) must be identical, and each equals its Lean model. Proved of both models alike: conflict-free selection (in Appendix D's terms on well-formed documents), legal configurations on charts without history/initial elements (C02's theorem, stated for either engine), well-nested notifications (C13); trace equality itself is exploration; one recorded finding (hist-shared: with nested histories the engines differ).",
   design_ref="6 / C03", note=ENGINE_NOTE),
 "C13": dict(category="proof",
   technique="Lean theorem (invariant by induction over API operations, structural induction over executable content) that the notification stream of both engine models is accepted by the nesting automaton Spec.Nesting; the models are tied to the compiled engines by trace equality and the same automaton (compiled from Lean) is run over every real trace",
   text="notifications_well_nested is proved for every chart, both engines and every sequence of step/receive/cancel/reset/destroy operations of any length: balance, nesting, exit-transition-entry phases, content only inside brackets, one stable-configuration notice per macrostep. 'Every exited/entered state, transition, element and event is reported exactly once and in execution order' holds in the model by construction (the notifications are how the model executes) and reaches the code through the correspondence: the compiled engines' notification traces must equal the model's on every generated chart and history (a difference is reported as a broken tie) and are themselves run through the automaton.",
   design_ref="6 / C13", note=ENGINE_NOTE),
})
CHECKS["C15"] = dict(category="proof",
   technique="Lean model of toJSON/fromJSON/jsmn with checked indices + theorems (no out-of-bounds access or empty-stack pop for any input; escape/unescape inverse for all byte strings; string-scan boundary); the model is tied to the compiled code by differential runs on plain and ASan+UBSan builds",
   text="Proved in Lean for every byte string: fromJSON never reaches an out-of-bounds read of the token array or a pop of an empty stack (fromJSON_no_oob: parser invariant by induction over jsmn's loop, stack invariant of the tree builder by induction over the token walk); unescape(escape s) = s; the tokenizer's string scan ends at the printer's closing quote. Partial: the whole-tree round trip fromJSON(toJSON d) = d is proved only at the string layer; for trees it is decided by the differential suites (exhaustive escape tables, random Data trees, event round trips), with the recorded findings toplevel-atom and nul-byte. That the C++ is the modelled function rests on the fromjson-bytes suite (truncations/mutations/random bytes, plain and sanitizer builds: a real out-of-bounds access aborts there).",
   design_ref="6 / C15", note="Trusted: hand model Model.Json (jsmn non-strict, token budget loop, tree builder), tied to the compiled code by the json suites; Data.node/binary outside the model.")
CHECKS["C17"] = dict(category="proof",
   technique="Lean theorems over tables regenerated on every run by probing the compiled parser and evaluator (translator), plus differential evaluation of generated expressions",
   text="Proved for all stores and all expressions over the property's operator set: evaluator-of-the-code = Promela/C semantics, and no expression reaches a crash branch; precedence/associativity decided by `decide` over the reduce-first matrix probed from the compiled LALR parser (full statement refuted for the ||/&& pair: recorded finding). The probed tables are regenerated before the Lean library is re-checked, so a change of an evaluator case or of the grammar tables breaks a theorem. Partial: that the compiled parser behaves as an operator-precedence parser with the probed matrix on all inputs, and that the C++ evaluator is the modelled function, rest on the differential suite (all depth-2 trees sampled + random depth<=5, minimal and full parentheses, 3 valuations).",
   design_ref="6 / C17", note="Trusted: Lean kernel; translate/promela_tables.py (exhaustive probes of finite tables); hand model Model.Promela.evalModel; int overflow excluded (mathematical integers); bison/flex generated code as executor.")
CHECKS["C16"] = dict(category="proof",
   technique="Lean theorem by mutual structural induction over Data trees about a hand model of getDataAsLua/getLuaAsData, tied by differential round trips through a real lua-datamodel interpreter",
   text="lua_roundtrip is proved for every unambiguous value with no bound on nesting or array length (the array proof is the numeric-order invariant of the repaired getLuaAsData); the model is compared with the compiled datamodel on values entering by assignment, as event payload and as <send> parameter and read back by evalAsData / _event.data; assignments to the five system variables are exercised on the real interpreter.",
   design_ref="6 / C16", note="Trusted: Lean kernel; hand model Model.LuaMarshal; liblua/LuaBridge; libstdc++ integer formatting (integers are carried as canonical decimal text, <= 15 digits); floats excluded; INTERPRETED atoms that are Lua source are outside the fragment.")
CHECKS["C05"] = dict(category="proof",
   technique="Lean theorems relating the hand model of ChartToC::prepare / Predicates.cpp (Model.Tables) to Appendix D's definitions (Spec.W3C) on every coherent chart; the model is tied to the compiled transformer by a bit-for-bit differential of the DOM annotation, and the theorems' decidable hypothesis is evaluated on every generated chart",
   text="Proved for every coherent chart (any size, any nesting): the embedded transition domain is Appendix D's getTransitionDomain (raw or effective targets, any history), the embedded exit set is exactly what computeExitSet leaves in every configuration, the conflict table contains Appendix D's conflicts and is exact for transitions of different regions, the ancestor table is isDescendant; conflicts symmetric. Partial: transitions into history states are outside the theorems (the embedded domain is computed from the pseudo-state: recorded finding hist-domain); default/history completion, document and post-fix order, children and target sets have no specification beyond Model.Tables/flatten (shared with the Appendix D oracle of C01) and are covered by the bit-for-bit comparison with the compiled code only.",
   design_ref="6 / C05", note="Trusted: hand model Model.Tables and the flatten model of resortStates/numbering (tied per run to the compiled annotation); Coherent is checked at run time on the generated charts, not proved of flatten; the text of the emitted C/Promela/VHDL is compared by C04/C06/C18.")
CHECKS["C19"] = dict(category="exploration",
   technique="Lean model of the validator's fatal structural checks compared class-by-class with Interpreter::validate() on valid and corrupted documents; accepted documents are interpreted and every configuration decided by Spec.Legal; crash-freedom on random SCXML-vocabulary XML",
   text="First soundness theorems (Lean, every document): no fatal issue => every transition target and every initial attribute id resolves to an element (a state-like descendant for initial) - the 'never dereferences a missing state' clause on the model of the validator. The rest is exploration: Soundness: documents validate() accepts are run through the interpreter (no crash, only legal configurations). Completeness: generated valid documents (also with id-less states, null and lua datamodels) must be free of fatal issues and syntax-error warnings. Totality: corrupted documents and random element soup. The Lean model of the fatal checks agrees with the code on all classes; theorems about it are still to come, hence 'exploration'.",
   design_ref="6 / C19", note="Trusted: hand model Model.Validate (structural fatal checks only); generators define what 'valid' means for the completeness stream (ids unique, targets resolve, legal state specifications, one default transition per history/initial).")
CHECKS["C14"] = dict(category="proof",
   technique="Lean 4 theorem about Model.Serial (what serialize keeps, what deserialize rebuilds): restore (snapshot e) = e up to the observer's log for every snapshotable engine state; its hypothesis is evaluated on every stable point the engine model reaches; differential resume on the compiled interpreter (serialize at a stable point, deserialize into a fresh interpreter - same and foreign document - and run the same continuation on both), both engines, null and lua datamodels",
   text="Proved (Large engine model): a snapshot loses nothing the engine reads. The hypothesis Snapshotable is an invariant of the engine that is checked (compiled Lean code, every stable point of random runs), not proved; the fast engine's model is covered by the differential suite only; the JSON text in between is C15's subject. The compiled interpreter is tied by running original and restored copy side by side, requiring identical notifications, logs, configurations and an identical second snapshot, and rejection of another document's snapshot.",
   design_ref="6 / C14", note="Trusted: Lean kernel; hand model Model.Serial; the serial harness. Delayed events and invokers are outside the generated fragment.")
CHECKS["C07"] = dict(category="proof",
   technique="Lean 4 theorems about the model of BasicContentExecutor::process and the micro-steppers' per-block catch (Model.Exec), tied to the ASan+UBSan build by I = M trace comparison with failing elements injected at random block positions in ~30 concrete guises per datamodel; crash-freedom explored with sanitizers on element soup and corrupted charts",
   text="Proved for every block, element, chart and executor state of the model: a failing element leaves error.execution/error.communication in the internal queue behind everything queued before, exactly the remainder of its block is skipped, the following blocks run, no queued event is lost. The model is the interpreter's for the generated fragment because every run compares the full monitor trace (both engines, null/lua/promela datamodels) token by token. 'Never terminates abnormally / never out of bounds' is a statement about the C++ run time that no theorem over the model can carry: it is explored (sanitizers, random well-formed XML with garbage expressions, data-init/donedata/script failures), and labelled as such.",
   design_ref="6 / C07", note="Trusted: Lean kernel; hand model Model.Exec + trace harness; the concrete failing forms are re-validated each run (suite forms). Partial: memory safety and abnormal termination are exploration only; errors in finalize/invoke are left to C11.")
CHECKS["C10"] = dict(category="proof",
   technique="Lean 4 theorems about Model.Api (life-cycle API over both micro-stepper models), tied to the ASan+UBSan build by I = M comparison of random API operation sequences; teardown/reset/cancel under forced timer-thread schedules (USCXML_VERIF hooks) with a watchdog",
   text="Proved for every chart, engine and operation sequence of the model: step results follow the life-cycle automaton, FINISHED is absorbing, CANCELLED is followed by exactly one finalising step running every active exit handler once, reset = fresh = destroy+recreate. The tie is the token-by-token comparison of the compiled interpreter with Model.Api.run on random operation sequences issued in every life-cycle state (also before the first step). Bounded-time destruction and safety under other threads are runtime facts outside the model: explored with schedule-forcing hooks, sanitizers and a watchdog, not proved.",
   design_ref="6 / C10", note="Trusted: Lean kernel; hand model Model.Api/Large/Fast + api harness. Partial: thread interleavings (timer, invoker, callers on other threads) are explored, not proved.")
CHECKS["C09"] = dict(category="proof",
   technique="Lean 4 theorems about Model.DelayQueue (ownership protocol of BasicDelayedEventQueue, all interleavings of the timer callback with any number of cancellers), tied to the compiled queue by replaying the observed order of its atomic sections (USCXML_VERIF trace hook) under forced schedules (schedule hooks) through the model; chart-level oracle for delayed send / cancel",
   text="Proved for every schedule: no use after free or double free, at most one delivery and never before the due time, an event a cancel found is never delivered (whenever in the race the cancel came), a delivered event is never delivered again, and no reachable state is dead-locked; the pre-repair protocol provably dead-locks (two witnesses). The tie: the real queue runs scripts with sleeps injected at its protocol points; the sequence of locked sections it actually executed must be a run of the model with the same outcome. Timing itself (libevent fires when due, in due order) is trusted and cross-checked on the log with a 3 ms granularity.",
   design_ref="6 / C09", note="Trusted: Lean kernel; hand model Model.DelayQueue; libevent's timer and event_del semantics; the dq harness and the log-to-action conversion in checks/c09.py.")
CHECKS["C08"] = dict(category="proof",
   technique="Lean 4 theorems about Model.EventQueue (all interleavings of atomic enqueue/dequeue) and about when Model.Large/Fast.step take events from which queue; tied to the code by I = M on operation sequences with several external events pending, and by a multi-producer stress harness on the ThreadSanitizer build with an exactly-once / per-sender-order / internal-before-external oracle",
   text="Proved: the queue delivers exactly the enqueued events, once, in lock order, per-sender order kept, for every schedule of any number of threads; the micro-steppers take an external event only at a macrostep boundary (internal queue empty, no eventless transition pending, stable configuration reported), process internal events in raise order and external ones in arrival order. The atomicity of enqueue/dequeue (one mutex) and the absence of data races are runtime facts: explored with ThreadSanitizer and producer threads, not proved.",
   design_ref="6 / C08", note="Trusted: Lean kernel; hand models Model.EventQueue, Model.Large/Fast; the threads harness and its oracle; ThreadSanitizer. Partial: thread interleavings are sampled.")
CHECKS["C20"] = dict(category="exploration",
   technique="process-instance comparison: every trace and every transpiler output is produced in 5 process instances (ASLR on twice, ASLR off, cache files cold and warm); traces must equal the Lean model's (a function of chart and events), emitted text must be byte-identical",
   text="For interpretation the technique applies through the tie: the Lean engine models are functions, and I = M in every process instance means the interpreter's trace does not depend on the process. For the transpilers there is no Lean model of the emitted bytes (C04/C06/C18 model what the emitted code computes, not its text), so byte-identity is decided by comparing separate processes: exploration, said as such.",
   design_ref="6 / C20", note="Trusted: the emit/trace harness, setarch -R, the kernel's address-space randomisation as the source of different layouts.")
CHECKS["C18"] = dict(category="translation_validation",
   technique="translator: the combinational equations are parsed out of the VHDL emitted for each document on every run and given meaning by Model.BoolEq; the compiled Lean specification Spec.TStep (SCXML micro-step over the transpilers' conflict relation, Spec.Legal for the configurations) enumerates the property's whole quantifier per document and compares state_next_*",
   text="Per document the property's quantifier is finite (legal configurations x events and the spontaneous step x 2^k condition valuations) and is decided completely - by exhaustive evaluation in compiled Lean code, which is a decision procedure for that document but not a kernel-checked proof; no theorem quantifies over all documents (that would need a Lean model of the equation generator itself, planned). Spec.TStep is tied to the interpreter by comparing the configurations it visits on event histories with the compiled interpreter's. Hence translation validation, not proof.",
   design_ref="6 / C18", note="Trusted: translate/vhdl_eqs.py (parser of the emitted assignments, mapping of event signals to event names by trie order), Model.BoolEq's reading of VHDL concurrent assignments, Spec.TStep/Spec.Legal. No VHDL simulator is installed.")
CHECKS["C04"] = dict(category="translation_validation",
   technique="the emitted C is compiled with ASan+UBSan and the generator's own sizing macros, driven with the same external events through null-datamodel callbacks, and its observable trace (dequeued events, logs of every content block, configuration after every micro-step) is compared with the Lean model of the interpreter (itself tied to the compiled interpreter by C01) on random and exhaustive small charts",
   text="Per document and event history the generated machine must reproduce the interpreter's observable behaviour, and the sanitizers decide the 'never reads or writes outside the arrays it declares' part for the executions run. No theorem about the emitted step function exists (a Lean model of the emitted algorithm over the C05 tables is the planned route): the Lean model serves as the oracle, the verdict is per run - translation validation by differential execution.",
   design_ref="6 / C04", note="Trusted: gcc, the sanitizers, gen/cdriver.c (callbacks), Model.Large as oracle.")
CHECKS["C06"] = dict(category="translation_validation",
   technique="the emitted Promela is executed by spin's simulator; its TRACE_EXECUTION lines are mapped to the trace alphabet (dequeued events, exits, entries, transitions, logs) and compared with the Lean model of the interpreter on random promela-datamodel charts; the interpreter with the promela datamodel is compared with the same model in the same run",
   text="Per document the model's execution must visit what the interpreter visits, in the same order. The emitted model has one process and no environment, so one simulation is every execution. No theorem about the emitted model exists (the planned route is a Lean model of the emitted step over the C05 tables, shared with C04): the verdict is per document by differential execution - translation validation.",
   design_ref="6 / C06", note="Trusted: spin 6.5 simulation, the mapping of trace lines (checks/c06.py), Model.Large as oracle.")
CHECKS["C11"] = dict(category="proof",
   technique="Lean 4 theorems about Model.Invoke (the micro-steppers' invoke bookkeeping over every history of exits, entries, macrostep ends and finishes), tied to the compiled interpreter by feeding the history its monitor trace reports to the model and comparing the invoke/uninvoke notifications; parent/child sessions with real threads explored on the ThreadSanitizer build with an oracle",
   text="Proved for every history: invocations and cancellations of a state alternate, an invocation starts exactly at a macrostep end with the state active and not yet invoked, is cancelled exactly once when the state is exited (also on exit and re-entry inside one macrostep) and all are cancelled on finish. The communication part of the property (done.invoke exactly once iff the child finished by itself, nothing from a cancelled child, #_parent / #_<id> / autoforward order, finalize first) depends on the interleaving of the parent's and the child's threads: explored with real child sessions under ThreadSanitizer and a watchdog, not proved.",
   design_ref="6 / C11", note="Trusted: Lean kernel; hand model Model.Invoke; extraction of the history from the monitor trace (checks/c11.py). Partial: thread interleavings sampled.")
PENDING = {}   # id -> reason (filled while the framework is being built)

def main():
    props = [json.loads(l) for l in open(os.path.join(VERIF, "properties.jsonl"))]
    checks, na = [], []
    for p in props:
        i = p["id"]
        if i in CHECKS:
            c = CHECKS[i]
            checks.append({
              "property_id": i,
              "quick_cmd": "bin/check %s --tier quick" % i,
              "thorough_cmd": "bin/check %s --tier thorough" % i,
              "evidence_file": "/verif/evidence/%s.json" % i,
              "replay_cmd_template": "bin/check %s --replay {path}" % i,
              "engine": "lean4+correspondence",
              "level_claimed": {"category": c.get("category", "proof"), "text": c["text"], "design_ref": "DESIGN.md section " + c["design_ref"]},
              "level_note": c["note"],
              "technique": c["technique"],
            })
        else:
            na.append({"property_id": i, "reason": PENDING.get(i, "check not built yet in this round (planned: see DESIGN.md section 6); not claimed until its model, theorems and correspondence run")})
    m = {
      "version": 1,
      "setup_cmd": "bin/setup",
      "hooks": {
        "guard": "USCXML_VERIF",
        "enable": "bin/vbuild configures /verif/.work/build-* from /repo's working tree with -DCMAKE_CXX_FLAGS='-Wno-error -DUSCXML_VERIF'",
        "baseline_off_cmd": "bin/baseline",
        "source_commits": json.load(open(os.path.join(VERIF, "lib", "hook_commits.json"))),
        "add_only": True,
      },
      "engines": [
        {"name": "lean4+correspondence", "path": "lean/ (theorems, models, uvdriver) + harness/ (uvharness) + checks/", "serves_properties": sorted(CHECKS),
         "kind_free_text": "Lean 4 theorems about hand-written executable models; differential correspondence between the compiled C++ (built from the working tree) and the compiled Lean model"},
      ],
      "checks": checks,
      "not_applicable": na,
      "notes": "All checks: bin/check <ID> --tier quick|thorough. Every run rebuilds /repo's working tree out of tree, re-checks the Lean library, audits axioms, runs the correspondence suites, writes evidence/<ID>.json. See DESIGN.md.",
    }
    json.dump(m, open(os.path.join(VERIF, "MANIFEST.json"), "w"), indent=1)

if __name__ == "__main__":
    main()
