"""Which locks are held where: the lock-scope facts of /repo's current source that Model.DelayLocks assumes.

A small translator-style tie for the two-lock layer of C09: on every run the function bodies named below are read from
the working tree, comments and string literals are removed, and a brace-scope walk records which `std::lock_guard` /
`std::unique_lock` / `std::scoped_lock` objects (by the name of the mutex they are constructed from) are alive at each
call of interest. The result is compared with the facts the Lean model is written from (EXPECTED); a difference means
the theorems `no_deadlock_two_locks` / `reachable_projects` are no longer about this code.

Only RAII guards are understood (the code uses nothing else on these paths); a manual lock()/unlock() on one of the two
mutexes inside a scanned function is itself reported as a difference.
"""
import re

QUEUE = "src/uscxml/interpreter/BasicDelayedEventQueue.cpp"
IMPL = "src/uscxml/interpreter/InterpreterImpl.cpp"

# (file, function, call pattern) -> the mutexes held at every such call; "absent" = the call must exist
EXPECTED = {
    # the timer thread hands the event over holding nothing: `check` is a locked section of its own (variant = false)
    (QUEUE, "BasicDelayedEventQueue::timerCallback", r"->eventReady\("): [],
    # ... and decides ownership under the queue's mutex
    (QUEUE, "BasicDelayedEventQueue::timerCallback", r"_callbackData\.erase\("): ["_mutex"],
    # detach: one locked section
    (QUEUE, "BasicDelayedEventQueue::detach", r"_callbackData\.erase\("): ["_mutex"],
    # dispose (event_del waits for a running callback) is never reached under the queue's mutex
    (QUEUE, "BasicDelayedEventQueue::dispose", r"\bevent_del\("): [],
    (QUEUE, "BasicDelayedEventQueue::enqueueDelayed", r"\bdispose\("): [],
    (QUEUE, "BasicDelayedEventQueue::cancelDelayed", r"\bdispose\("): [],
    (QUEUE, "BasicDelayedEventQueue::cancelAllDelayed", r"\bdispose\("): [],
    (QUEUE, "BasicDelayedEventQueue::enqueueDelayed", r"\bevent_add\("): ["_mutex"],
    # the interpreter thread holds the delay mutex throughout <send delay> and <cancel>; delivery takes it
    (IMPL, "InterpreterImpl::enqueue", r"_delayQueue\.enqueueDelayed\("): ["_delayMutex"],
    (IMPL, "InterpreterImpl::cancelDelayed", r"_delayQueue\.cancelDelayed\("): ["_delayMutex"],
    (IMPL, "InterpreterImpl::deliver", r"_delayedEventTargets\.find\("): ["_delayMutex"],
    (IMPL, "InterpreterImpl::eventReady", r"\bdeliver\("): [],
}
MUTEXES = ("_mutex", "_delayMutex")


def strip(src):
    """remove comments, string and character literals (keeping the length of lines irrelevant)"""
    out, i, n = [], 0, len(src)
    while i < n:
        c = src[i]
        if src.startswith("//", i):
            j = src.find("\n", i); i = n if j < 0 else j
        elif src.startswith("/*", i):
            j = src.find("*/", i + 2); i = n if j < 0 else j + 2
        elif c in "\"'":
            j = i + 1
            while j < n and src[j] != c:
                j += 2 if src[j] == "\\" else 1
            out.append(c + c); i = j + 1
        else:
            out.append(c); i += 1
    return "".join(out)


def body(src, fn):
    """text between the braces of the definition of fn (first definition), or None"""
    for m in re.finditer(r"\b%s\s*\(" % re.escape(fn), src):
        # skip to the matching ')' then expect '{' (a definition, not a call or declaration)
        i, depth = m.end(), 1
        while i < len(src) and depth:
            depth += {"(": 1, ")": -1}.get(src[i], 0); i += 1
        j = i
        while j < len(src) and src[j] in " \t\r\nconst": j += 1
        if j < len(src) and src[j] == "{":
            k, depth = j + 1, 1
            while k < len(src) and depth:
                depth += {"{": 1, "}": -1}.get(src[k], 0); k += 1
            return src[j + 1:k - 1]
    return None


GUARD = re.compile(r"\b(?:std::)?(?:lock_guard|unique_lock|scoped_lock)\s*(?:<[^;{}]*?>)?\s+\w+\s*[({]([^;]*?)[)}]\s*;")


def held_at(bodytext, pattern):
    """for every match of pattern in the body: the sorted list of mutex names guarded in an enclosing scope before it;
    also the list of manual lock/unlock calls on the two mutexes"""
    scopes, res, i = [[]], [], 0
    events = []
    for m in GUARD.finditer(bodytext): events.append((m.start(), "guard", m))
    for m in re.finditer(pattern, bodytext): events.append((m.start(), "call", m))
    for m in re.finditer(r"[{}]", bodytext): events.append((m.start(), m.group(0), m))
    manual = [m.group(0) for m in re.finditer(r"\b(?:%s)\s*\.\s*(?:lock|unlock|try_lock)\s*\(" % "|".join(MUTEXES), bodytext)]
    for pos, kind, m in sorted(events, key=lambda e: e[0]):
        if kind == "{": scopes.append([])
        elif kind == "}":
            if len(scopes) > 1: scopes.pop()
        elif kind == "guard":
            arg = m.group(1)
            names = [x for x in MUTEXES if re.search(r"(?<![A-Za-z0-9])%s\b" % re.escape(x), arg)]
            # `_mutex` must not be read out of `_delayMutex`
            scopes[-1] += names
        else:
            res.append(sorted(set(x for s in scopes for x in s)))
    return res, manual


def facts(repo="/repo"):
    """-> (dict key -> observed, list of differences as text)"""
    cache, obs, diffs = {}, {}, []
    for (f, fn, pat), want in EXPECTED.items():
        if f not in cache:
            try: cache[f] = strip(open("%s/%s" % (repo, f), encoding="utf-8", errors="replace").read())
            except OSError: cache[f] = None
        src = cache[f]
        b = body(src, fn) if src is not None else None
        key = "%s: %s" % (fn, pat)
        if b is None:
            obs[key] = "function not found"; diffs.append("%s - the function is not found in %s" % (fn, f)); continue
        got, manual = held_at(b, pat)
        obs[key] = got
        if manual: diffs.append("%s locks by hand (%s): the scope walk does not follow it" % (fn, ", ".join(sorted(set(manual)))))
        if not got: diffs.append("%s: no call matching %s (the model has one, holding %s)" % (fn, pat, want or "nothing"))
        for g in got:
            if g != sorted(want):
                diffs.append("%s: at the call matching %s the locks held are %s; the model assumes %s" % (fn, pat, g or "none", sorted(want) or "none"))
    return obs, sorted(set(diffs))


if __name__ == "__main__":
    import json, sys
    o, d = facts(sys.argv[1] if len(sys.argv) > 1 else "/repo")
    print(json.dumps(o, indent=1)); print("\n".join(d) or "as the model assumes")
