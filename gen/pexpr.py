"""Promela expression trees, printed with minimal (C precedence) and with full parenthesisation."""
BIN = ["||", "&&", "==", "!=", ">", "<", ">=", "<=", "<<", ">>", "+", "-", "*", "/", "%"]
LEVEL = {"||": 1, "&&": 2, "|": 3, "^": 4, "&": 5, "==": 6, "!=": 6, ">": 7, "<": 7, ">=": 7, "<=": 7, "<<": 8, ">>": 8,
         "+": 9, "-": 9, "*": 10, "/": 10, "%": 10}


def pmin(e, ctx=0):
    k = e[0]
    if k == "c": return str(e[1])
    if k == "v": return e[1]
    if k == "arr": return "%s[%s]" % (e[1], pmin(e[2]))
    if k == "!": return "!" + pmin(e[1], 11)
    if k == "neg":
        t = pmin(e[1], 11)
        return "-(%s)" % t if t.startswith("-") else "-" + t      # `--x` would be the decrement token
    lv = LEVEL[k]
    s = "%s %s %s" % (pmin(e[1], lv), k, pmin(e[2], lv + 1))
    return "(%s)" % s if lv < ctx else s


def pfull(e):
    k = e[0]
    if k == "c": return str(e[1])
    if k == "v": return e[1]
    if k == "arr": return "%s[%s]" % (e[1], pfull(e[2]))
    if k == "!": return "(!%s)" % pfull(e[1])
    if k == "neg": return "(-%s)" % pfull(e[1])
    return "(%s %s %s)" % (pfull(e[1]), k, pfull(e[2]))


LEAVES = [("c", 0), ("c", 1), ("c", 2), ("c", 7), ("v", "a"), ("v", "b"), ("v", "c"), ("c", "true"), ("c", "false")]


def rand_expr(r, depth):
    if depth == 0 or r.random() < 0.15:
        if r.random() < 0.1: return ("arr", "arr", r.choice([("c", 0), ("c", 1), ("c", 3), ("v", "c"), ("c", 4), ("-", ("c", 0), ("c", 1))]))
        return r.choice(LEAVES)
    x = r.random()
    if x < 0.1: return ("!", rand_expr(r, depth - 1))
    if x < 0.2: return ("neg", rand_expr(r, depth - 1))
    op = r.choice(BIN)
    if op in ("<<", ">>"): return (op, rand_expr(r, depth - 1), ("c", r.choice([0, 1, 2, 3])))
    return (op, rand_expr(r, depth - 1), rand_expr(r, depth - 1))


BIG_LEAVES = [("c", 2147483647), ("c", 65536), ("c", 46341), ("c", 31), ("c", 32), ("c", 33), ("c", 1), ("c", 2), ("c", 0),
              ("v", "a"), ("v", "b"), ("v", "c")]


def rand_expr_big(r, depth):
    """operands near the ends of the int range, unrestricted shift counts"""
    if depth == 0 or r.random() < 0.15: return r.choice(BIG_LEAVES)
    x = r.random()
    if x < 0.15: return ("neg", rand_expr_big(r, depth - 1))
    op = r.choice(["+", "-", "*", "/", "%", "<<", ">>", "+", "-", "*", "==", "<", ">="])
    return (op, rand_expr_big(r, depth - 1), rand_expr_big(r, depth - 1))


def all_exprs(depth, leaves=None, ops=None):
    leaves = leaves or [("c", 0), ("c", 2), ("c", 7), ("v", "a"), ("v", "b")]
    ops = ops or BIN
    if depth == 0:
        for l in leaves: yield l
        return
    subs = list(all_exprs(depth - 1, leaves, ops))
    for s in subs: yield s
    for s in subs:
        yield ("!", s); yield ("neg", s)
    for op in ops:
        for l in subs:
            for r in subs:
                if op in ("<<", ">>") and not (r[0] == "c" and r[1] in (0, 1, 2, 3)): continue
                yield (op, l, r)
