/* Driver for a generated ANSI-C machine (appended to the text uscxml-transform -tc emits).
 * usage: ./machine <event> <event> ...   -> one line of tokens on stdout:
 *   bpe:<event> for every dequeued event, log:<label>, cfg:<ids> after every step that returned
 *   USCXML_ERR_OK, ret:<code> for every other return value, DIVERGE after 60 steps without idling.
 * The callbacks are the null datamodel's: In('id') / true / false conditions, raise, send to the
 * session itself or #_internal, log; unknown send types or targets raise the error events. */
#include <stdio.h>
#include <string.h>
#include <stdlib.h>

#define QMAX 512
typedef struct { char name[96]; } uv_event;
static uv_event iq[QMAX], eq[QMAX];
static int iq_h, iq_t, eq_h, eq_t;
static uv_event cur_i, cur_e;

static void raise_internal(const char* n) { if (iq_t < QMAX) { strncpy(iq[iq_t].name, n, 95); iq[iq_t].name[95] = 0; iq_t++; } }
static void send_external(const char* n) { if (eq_t < QMAX) { strncpy(eq[eq_t].name, n, 95); eq[eq_t].name[95] = 0; eq_t++; } }

static void* uv_dequeue_internal(const uscxml_ctx* ctx) {
	if (iq_h == iq_t) return NULL;
	cur_i = iq[iq_h++];
	printf("bpe:%s ", cur_i.name);
	return &cur_i;
}
static void* uv_dequeue_external(const uscxml_ctx* ctx) {
	if (eq_h == eq_t) return NULL;
	cur_e = eq[eq_h++];
	printf("xe bpe:%s ", cur_e.name);     /* xe: the event comes from the external queue (a macrostep ended) */
	return &cur_e;
}

/* W3C 3.12.1: a descriptor matches if it is a prefix of the event name on token boundaries; "*" matches all */
static int desc_matches(const char* d, size_t dl, const char* name) {
	size_t nl = strlen(name);
	if (dl == 1 && d[0] == '*') return 1;
	if (dl >= 2 && d[dl - 1] == '*' && d[dl - 2] == '.') dl -= 2;
	else if (dl >= 1 && d[dl - 1] == '.') dl -= 1;
	if (dl == 0 || dl > nl) return 0;
	if (strncmp(d, name, dl) != 0) return 0;
	return nl == dl || name[dl] == '.';
}
static int uv_is_matched(const uscxml_ctx* ctx, const uscxml_transition* t, const void* event) {
	const char* name = ((const uv_event*)event)->name;
	const char* p = t->event;
	while (*p) {
		while (*p == ' ') p++;
		const char* q = p;
		while (*q && *q != ' ') q++;
		if (q > p && desc_matches(p, (size_t)(q - p), name)) return 1;
		p = q;
	}
	return 0;
}
static int in_state(const uscxml_ctx* ctx, const char* id, size_t len) {
	size_t i;
	for (i = 0; i < ctx->machine->nr_states; i++) {
		const char* n = ctx->machine->states[i].name;
		if (n != NULL && strlen(n) == len && strncmp(n, id, len) == 0 && (ctx->config[i >> 3] & (1 << (i & 7)))) return 1;
	}
	return 0;
}
static int uv_is_true(const uscxml_ctx* ctx, const char* expr) {
	if (expr == NULL) return 1;
	if (strncmp(expr, "In('", 4) == 0) { const char* e = strchr(expr + 4, '\''); return e ? in_state(ctx, expr + 4, (size_t)(e - expr - 4)) : 0; }
	if (strcmp(expr, "true") == 0) return 1;
	return 0;
}
static int uv_raise_done_event(const uscxml_ctx* ctx, const uscxml_state* state, const uscxml_elem_donedata* donedata) {
	char buf[96];
	snprintf(buf, sizeof buf, "done.state.%s", state->name ? state->name : "");
	raise_internal(buf);
	return USCXML_ERR_OK;
}
static int uv_log(const uscxml_ctx* ctx, const char* label, const char* expr) { printf("log:%s ", label ? label : ""); return USCXML_ERR_OK; }
static int uv_raise(const uscxml_ctx* ctx, const char* event) { raise_internal(event); return USCXML_ERR_OK; }
static int uv_send(const uscxml_ctx* ctx, const uscxml_elem_send* send) {
	if (send->type != NULL && strcmp(send->type, "http://www.w3.org/TR/scxml/#SCXMLEventProcessor") != 0 && strcmp(send->type, "scxml") != 0) {
		raise_internal("error.execution"); return USCXML_ERR_INVALID_TYPE;
	}
	if (send->target != NULL && strcmp(send->target, "#_internal") == 0) { raise_internal(send->event); return USCXML_ERR_OK; }
	if (send->target != NULL && send->target[0] != 0) { raise_internal("error.communication"); return USCXML_ERR_INVALID_TARGET; }
	send_external(send->event);
	return USCXML_ERR_OK;
}

static void print_cfg(const uscxml_ctx* ctx) {
	size_t i; const char* sep = "";
	printf("cfg:");
	for (i = 0; i < ctx->machine->nr_states; i++) {
		if (ctx->config[i >> 3] & (1 << (i & 7))) {
			const char* n = ctx->machine->states[i].name;
			printf("%s%s", sep, i == 0 ? "root" : (n ? n : "?")); sep = ",";
		}
	}
	printf(" ");
}
static int run_quiescent(uscxml_ctx* ctx) {
	int k;
	for (k = 0; k < 60; k++) {
		int err = uscxml_step(ctx);
		if (err == USCXML_ERR_OK) { print_cfg(ctx); continue; }
		printf("ret:%d ", err);
		return err;
	}
	printf("DIVERGE ");
	return -1;
}

int main(int argc, char** argv) {
	uscxml_ctx ctx;
	int a, err;
	memset(&ctx, 0, sizeof ctx);
	ctx.machine = &USCXML_MACHINE;
	ctx.dequeue_internal = uv_dequeue_internal;
	ctx.dequeue_external = uv_dequeue_external;
	ctx.is_matched = uv_is_matched;
	ctx.is_true = uv_is_true;
	ctx.raise_done_event = uv_raise_done_event;
	ctx.exec_content_log = uv_log;
	ctx.exec_content_raise = uv_raise;
	ctx.exec_content_send = uv_send;
	err = run_quiescent(&ctx);
	for (a = 1; a < argc && err == USCXML_ERR_IDLE; a++) {
		send_external(argv[a]);
		err = run_quiescent(&ctx);
	}
	printf("end\n");
	return 0;
}
