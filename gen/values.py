"""Generators of Data trees (prefix form shared by uvharness/uvdriver `json`) and of byte strings."""


def hx(b):
    return bytes(b).hex() if len(b) else ""


class GenV:
    def __init__(self, rng, allow_nul=False, max_depth=5):
        self.r, self.allow_nul, self.max_depth = rng, allow_nul, max_depth

    def bytestr(self, maxlen=8):
        r = self.r
        n = r.choice([0, 1, 1, 2, 3, 5, maxlen])
        out = bytearray()
        for _ in range(n):
            x = r.random()
            if x < 0.35: out.append(r.choice(b'abcXYZ019 _-.'))
            elif x < 0.6: out.append(r.choice(b'"\\/\b\f\n\r\t\v{}[]:,\''))
            elif x < 0.75: out += r.choice(["ä", "€", "𝄞", "ß"]).encode()
            elif x < 0.9: out.append(r.randrange(1, 32))
            else: out.append(r.randrange(0 if self.allow_nul else 1, 256))
        return bytes(out)

    def number(self):
        r = self.r
        x = r.random()
        if x < 0.5: return str(r.randrange(-1000, 1000)).encode()
        if x < 0.7: return ("%d.%d" % (r.randrange(0, 99), r.randrange(0, 999))).encode()
        if x < 0.8: return r.choice([b"true", b"false", b"null", b"1e10", b"-0"])
        return str(r.randrange(0, 10 ** r.randrange(1, 18))).encode()

    def value(self, depth=0, top=False):
        """returns list of prefix tokens"""
        r = self.r
        x = r.random()
        if not top and (depth >= self.max_depth or x < 0.45):
            if r.random() < 0.6: return ["V" + hx(self.bytestr())]
            return ["I" + hx(self.number())]
        if x < 0.72 or (top and x < 0.5):
            n = r.choice([1, 1, 2, 3, 5])
            out = ["A%d" % n]
            for _ in range(n): out += self.value(depth + 1)
            return out
        n = r.choice([1, 1, 2, 3, 4])
        keys = set()
        while len(keys) < n: keys.add(self.bytestr(5) if r.random() < 0.5 else r.choice([b"a", b"b", b"key", b"k1", b"", b"x y", b"1"]))
        out = ["O%d" % len(keys)]
        for k in sorted(keys):
            out.append(hx(k) or "-")
            out += self.value(depth + 1)
        return out


def has_nul(tokens):
    for t in tokens:
        body = t[1:] if t[:1] in "VI" else (t if t[:1] not in "AO" else "")
        if body and body != "-":
            try:
                if b"\x00" in bytes.fromhex(body): return True
            except ValueError: pass
    return False


def mutate(rng, js):
    js = bytearray(js)
    for _ in range(rng.randint(1, 3)):
        x = rng.random()
        if not js: js.append(rng.randrange(256)); continue
        i = rng.randrange(len(js))
        if x < 0.3: del js[i]
        elif x < 0.6: js[i] = rng.choice(b'{}[]",:\\ \n01ab') if rng.random() < 0.7 else rng.randrange(256)
        elif x < 0.8: js.insert(i, rng.choice(b'{}[]",:\\ \n01ab'))
        else: js[i:i] = js[i:i + rng.randint(1, 4)]
    return bytes(js)
