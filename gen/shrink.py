"""Greedy delta-debugging of a (chart, events) pair while `pred(chart, events)` stays true."""
import copy


def all_ids(root):
    return set(n.id for n in root.walk() if n.id)


def repair(root):
    """drop references to states that no longer exist (to a fixpoint); False if the chart became unusable"""
    for _ in range(6):
        before = sum(1 for _ in root.walk()) + sum(len(n.trans) for n in root.walk())
        if not repair1(root): return False
        if before == sum(1 for _ in root.walk()) + sum(len(n.trans) for n in root.walk()): break
    return True


def repair1(root):
    root.link()
    root.children = [c for c in root.children if c.kind not in ("initial", "history", "hdeep")]
    for n in root.walk():
        if n.kind in ("parallel", "final", "scxml"):
            n.children = [c for c in n.children if c.kind != "initial"]
        if n.kind == "final": n.children = []
        if n.kind == "parallel": n.children = [c for c in n.children if c.kind != "final"]
    ids = all_ids(root)
    for n in list(root.walk()):
        if n.init is not None:
            n.init = [i for i in n.init if i in ids]
            if not n.init: n.init = None
        keep = []
        for t in n.trans:
            if t.targets is not None:
                tg = [i for i in t.targets if i in ids]
                if not tg:
                    if n.kind in ("history", "hdeep", "initial"): continue
                    continue
                t.targets = tg
            keep.append(t)
        n.trans = keep
    # pseudo states without transition are removed; compound-less initial removed
    for n in list(root.walk()):
        n.children = [c for c in n.children if not (c.kind in ("history", "hdeep", "initial") and not c.trans)]
        if not n.proper_children():
            n.children = [c for c in n.children if c.kind not in ("history", "hdeep", "initial")]
            n.init = None
    root.link()
    if not root.proper_children(): return False
    for n in root.walk():
        if n.kind == "parallel" and not n.proper_children(): n.kind = "state"
    return True


def strip_exec(block, idx_path):
    pass


def candidates(root, events):
    """yield (description, mutated copy, events)"""
    # shorter event lists
    for i in range(len(events)):
        yield "drop event %d" % i, root, events[:i] + events[i + 1:]
    nodes = list(root.walk())
    for k, n in enumerate(nodes):
        if n is root: continue
        def f(r, k=k):
            m = list(r.walk())[k]
            m.parent.children = [c for c in m.parent.children if c is not m]
        yield "drop state %s" % n.id, f, events
        if n.children:
            def g(r, k=k):
                m = list(r.walk())[k]
                i = m.parent.children.index(m)
                m.parent.children[i:i + 1] = m.children
            yield "splice state %s" % n.id, g, events
    for k, n in enumerate(nodes):
        for j in range(len(n.trans)):
            def f(r, k=k, j=j):
                m = list(r.walk())[k]; del m.trans[j]
            yield "drop trans %s.%d" % (n.id, j), f, events
            t = n.trans[j]
            if t.content:
                def f2(r, k=k, j=j):
                    list(r.walk())[k].trans[j].content = []
                yield "strip content %s.%d" % (n.id, j), f2, events
            if t.cond != "-":
                def f3(r, k=k, j=j):
                    list(r.walk())[k].trans[j].cond = "-"
                yield "drop cond", f3, events
            if t.targets and len(t.targets) > 1:
                for q in range(len(t.targets)):
                    def f4(r, k=k, j=j, q=q):
                        del list(r.walk())[k].trans[j].targets[q]
                    yield "drop target", f4, events
            if t.internal:
                def f5(r, k=k, j=j):
                    list(r.walk())[k].trans[j].internal = False
                yield "external", f5, events
        if n.onentry:
            def f(r, k=k):
                list(r.walk())[k].onentry = []
            yield "drop onentry %s" % n.id, f, events
        if n.onexit:
            def f(r, k=k):
                list(r.walk())[k].onexit = []
            yield "drop onexit %s" % n.id, f, events
        if n.init is not None:
            def f(r, k=k):
                list(r.walk())[k].init = None
            yield "drop init %s" % n.id, f, events
    # simplify exec blocks: replace each block by each single element
    for k, n in enumerate(nodes):
        for attr in ("onentry", "onexit"):
            for bi, b in enumerate(getattr(n, attr)):
                for ei in range(len(b)):
                    def f(r, k=k, attr=attr, bi=bi, ei=ei):
                        blk = getattr(list(r.walk())[k], attr)[bi]; del blk[ei]
                    yield "drop exec", f, events
        for j, t in enumerate(n.trans):
            for ei in range(len(t.content)):
                def f(r, k=k, j=j, ei=ei):
                    del list(r.walk())[k].trans[j].content[ei]
                yield "drop exec", f, events


def shrink(root, events, pred, max_rounds=30):
    root = copy.deepcopy(root).link(); events = list(events)
    for _ in range(max_rounds):
        progress = False
        for desc, mut, ev2 in candidates(root, events):
            if callable(mut):
                r2 = copy.deepcopy(root).link()
                try:
                    mut(r2)
                except Exception:
                    continue
                if not repair(r2): continue
            else:
                r2 = root
            if r2 is root and ev2 == events: continue
            try:
                ok = pred(r2, ev2)
            except Exception:
                ok = False
            if ok:
                root, events = r2, ev2
                progress = True
                break
        if not progress: break
    return root, events
