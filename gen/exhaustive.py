"""Exhaustive enumeration of small charts: all ordered trees with up to N proper states below the
root, every assignment of state/parallel to the inner nodes, and every set of up to T transitions
(source, target-or-targetless) on one event. Deduplication is by construction (canonical order)."""
import itertools
from charts import Node, Trans


def trees(n):
    """all ordered forests with n nodes, as nested tuples"""
    if n == 0:
        yield ()
        return
    for k in range(1, n + 1):            # size of the first tree
        for first_kids in trees(k - 1):
            for rest in trees(n - k):
                yield (first_kids,) + rest


def build(forest, kinds, counter):
    out = []
    for kids in forest:
        counter[0] += 1
        me = counter[0]
        if kids:
            kind = kinds.pop(0)
            out.append(Node(kind, "s%d" % me, children=build(kids, kinds, counter)))
        else:
            out.append(Node("state", "s%d" % me))
    return out


def inner_count(forest):
    return sum(1 + inner_count(k) for k in forest if k) + sum(0 for k in forest if not k)


def charts(max_states=5, max_trans=2, with_targetless=True):
    for n in range(1, max_states + 1):
        for forest in trees(n):
            ni = inner_count(forest)
            for kinds in itertools.product(("state", "parallel"), repeat=ni):
                proto = Node("scxml", "root", children=build(forest, list(kinds), [0])).link()
                ids = [x.id for x in proto.walk() if x.kind != "scxml"]
                opts = [(s, t) for s in ids for t in ids + ([None] if with_targetless else [])]
                for k in range(0, max_trans + 1):
                    for combo in itertools.combinations(opts, k):
                        root = Node("scxml", "root", children=build(forest, list(kinds), [0])).link()
                        byid = dict((x.id, x) for x in root.walk())
                        for s, t in combo:
                            byid[s].trans.append(Trans(event="e", targets=None if t is None else [t]))
                        yield root
                        # the same chart started in each other child of the root
                        if k == max_trans:
                            for ch in root.children[1:]:
                                r2 = Node("scxml", "root", children=build(forest, list(kinds), [0])).link()
                                b2 = dict((x.id, x) for x in r2.walk())
                                for s, t in combo:
                                    b2[s].trans.append(Trans(event="e", targets=None if t is None else [t]))
                                r2.init = [ch.id]
                                yield r2


if __name__ == "__main__":
    import sys
    n = 0
    for c in charts(int(sys.argv[1]), int(sys.argv[2])): n += 1
    print(n)
