"""Greedy shrinker for XML documents given as text: removes elements (hoisting or dropping their
children) and attributes while `pred(text)` keeps holding."""
import xml.etree.ElementTree as ET

NS = "http://www.w3.org/2005/07/scxml"


def _ser(root):
    ET.register_namespace("", NS)
    return ET.tostring(root, encoding="unicode")


def _paths(root):
    out = []
    def walk(e, p):
        for i, k in enumerate(list(e)):
            out.append(p + [i])
            walk(k, p + [i])
    walk(root, [])
    return out


def _get(root, path):
    e = root
    for i in path: e = list(e)[i]
    return e


def shrink(text, pred, budget=400):
    try:
        root = ET.fromstring(text)
    except ET.ParseError:
        return text
    best = _ser(root)
    if not pred(best): return text
    calls = 0
    changed = True
    while changed and calls < budget:
        changed = False
        # drop whole subtrees, deepest last so that big cuts come first
        for path in sorted(_paths(root), key=len):
            if calls >= budget: break
            cand = ET.fromstring(best)
            try:
                par = _get(cand, path[:-1]); kid = list(par)[path[-1]]
            except IndexError:
                continue
            par.remove(kid)
            s = _ser(cand); calls += 1
            if pred(s):
                best, root, changed = s, cand, True
                break
            # hoist the children in place of the element
            cand = ET.fromstring(best)
            par = _get(cand, path[:-1]); kid = list(par)[path[-1]]
            if len(kid):
                idx = list(par).index(kid)
                par.remove(kid)
                for j, g in enumerate(list(kid)): par.insert(idx + j, g)
                s = _ser(cand); calls += 1
                if pred(s):
                    best, root, changed = s, cand, True
                    break
        if changed: continue
        for path in [[]] + _paths(root):
            e = _get(root, path)
            for a in list(e.attrib):
                if a in ("version",): continue
                if calls >= budget: break
                cand = ET.fromstring(best)
                del _get(cand, path).attrib[a]
                s = _ser(cand); calls += 1
                if pred(s):
                    best, root, changed = s, cand, True
                    break
            if changed: break
    return best
