"""Chart generator for the engine-family checks (C01 C02 C03 C07 C13 C14 ...).

A chart is a tree of Node objects; `sexpr(n)` renders the line-protocol form parsed by
lean/Driver/SExp.lean, `xml(n, dm)` the SCXML text handed to the real interpreter.
All random choices come from the `random.Random` handed in.
"""
import itertools

PROPER = ("scxml", "state", "parallel", "final")


class Node:
    def __init__(self, kind, id, init=None, onentry=None, onexit=None, trans=None, children=None):
        self.kind, self.id, self.init = kind, id, init
        self.onentry = onentry or []      # list of blocks (lists of exec)
        self.onexit = onexit or []
        self.trans = trans or []
        self.children = children or []
        self.late = False
        self.parent = None

    def walk(self):
        yield self
        for c in self.children:
            for x in c.walk():
                yield x

    def link(self):
        for c in self.children:
            c.parent = self
            c.link()
        return self

    def proper_children(self):
        return [c for c in self.children if c.kind in PROPER]

    def descendants(self):
        return [x for c in self.children for x in c.walk()]

    def ancestors(self):
        a, p = [], self.parent
        while p is not None:
            a.append(p); p = p.parent
        return a


class Trans:
    def __init__(self, event=None, cond="-", internal=False, targets=None, content=None):
        self.event, self.cond, self.internal = event, cond, internal
        self.targets = targets            # None = targetless
        self.content = content or []


# exec: ("raise", uv, name) ("log", uv, label) ("send", uv, name, target) ("fail", uv, "exec"|"comm")
#       ("assign", uv, v, k) ("incr", uv, v) ("if", uv, cond, [children]) ("elseif", cond) ("else",)

def sx_exec(e):
    k = e[0]
    if k == "if":
        return "(if %d %s%s)" % (e[1], e[2], "".join(" " + sx_exec(c) for c in e[3]))
    if k == "elseif": return "(elseif %s)" % e[1]
    if k == "else": return "(else)"
    if k == "send": return "(send %d %s %s)" % (e[1], e[2], e[3] or "-")
    return "(" + " ".join(str(x) for x in e) + ")"


def sexpr(n):
    parts = [n.kind, n.id or "-"]
    if n.kind == "scxml" and n.late: parts.append("(binding late)")
    if n.init is not None: parts.append("(init %s)" % " ".join(n.init))
    for b in n.onentry: parts.append("(onentry%s)" % "".join(" " + sx_exec(e) for e in b))
    for b in n.onexit: parts.append("(onexit%s)" % "".join(" " + sx_exec(e) for e in b))
    for t in n.trans:
        tg = "-" if t.targets is None else "(%s)" % " ".join(t.targets)
        parts.append("(t %s %s %s %s%s)" % ((t.event or "-").replace(" ", ","), t.cond, "i" if t.internal else "e", tg,
                                            "".join(" " + sx_exec(e) for e in t.content)))
    for c in n.children: parts.append(sexpr(c))
    return "(" + " ".join(parts) + ")"


# Concrete guises of the abstract failing element / failing condition, per datamodel. Every form
# was observed (check C07 re-validates them each run, suite "forms") to raise exactly the one
# event and to abort the enclosing block. {uv} is the uvid attribute.
FAIL_FORMS = {
    "null": {
        "exec": ['<send event="x" type="http://example.invalid/nosuchtype" uvid="{uv}"/>',
                 '<send event="x" targetexpr="nosuchfunction()" uvid="{uv}"/>',
                 '<send event="x" target="!invalid" uvid="{uv}"/>',
                 '<send event="x" target="#_internal" type="nosuch" uvid="{uv}"/>',
                 '<cancel uvid="{uv}"/>'],
        "comm": ['<send event="x" target="#_nosuchinvoker" uvid="{uv}"/>',
                 '<send event="x" target="#_scxml_nosuchsession" uvid="{uv}"/>'],
    },
}
_COMMON_DM = [
    '<send event="x" type="http://example.invalid/nosuchtype" uvid="{uv}"/>',
    '<assign location="" expr="1" uvid="{uv}"/>',
    '<assign expr="1" uvid="{uv}"/>',
    '<assign location="nosuch.foo.bar" expr="1" uvid="{uv}"/>',
    '<assign location="Var0" expr="nosuchfunction()" uvid="{uv}"/>',
    '<assign location="Var0" expr="1 +* (" uvid="{uv}"/>',
    '<assign location="Var0" expr="7 % 0" uvid="{uv}"/>',
    '<assign location="Var0" expr="nil + 1" uvid="{uv}"/>',
    '<assign location="_event" expr="1" uvid="{uv}"/>',
    '<assign location="_sessionid" expr="1" uvid="{uv}"/>',
    '<foreach array="nosuch" item="x" uvid="{uv}"/>',
    '<foreach item="x" uvid="{uv}"/>',
    '<foreach array="Var0" item="x" uvid="{uv}"/>',
    '<foreach array="Var0" item="1bad" uvid="{uv}"/>',
    '<script uvid="{uv}">this is (( not code</script>',
    '<script uvid="{uv}">nosuchfunction()</script>',
    '<log expr="nosuchfunction()" uvid="{uv}"/>',
    '<send eventexpr="nosuchfunction()" uvid="{uv}"/>',
    '<send event="x" targetexpr="nosuchfunction()" uvid="{uv}"/>',
    '<send event="x" delayexpr="nosuchfunction()" uvid="{uv}"/>',
    '<send event="x" uvid="{uv}"><param name="p" expr="nosuchfunction()"/></send>',
    '<send event="x" uvid="{uv}"><content expr="nosuchfunction()"/></send>',
    '<send event="x" target="!invalid" uvid="{uv}"/>',
    '<send event="x" target="#_internal" type="nosuch" uvid="{uv}"/>',
    '<cancel uvid="{uv}"/>',
    '<cancel sendidexpr="nosuchfunction()" uvid="{uv}"/>',
]
FAIL_FORMS["lua"] = {"exec": _COMMON_DM + ['<assign location="Var0" expr="7 // 0" uvid="{uv}"/>'], "comm": FAIL_FORMS["null"]["comm"]}
FAIL_FORMS["promela"] = {"exec": _COMMON_DM + ['<assign location="Var0" expr="7 / 0" uvid="{uv}"/>',
                                               '<assign location="nosuch" expr="1" uvid="{uv}"/>'], "comm": FAIL_FORMS["null"]["comm"]}
COND_ERR = {
    "lua": ["nosuchfunction()", "1 +* (", "nil + 1 > 0", "Var0.x.y", "7 % 0", "x x", "_event.data.foo.bar", "In(", '"abc', "1 == "],
    "promela": ["nosuchfunction()", "1 +* (", "7 / 0", "7 % 0", "x x", "Var0.x.y", "In(", '"abc', "1 == "],
}
_FLAVOR = None      # None: the one canonical form; an int: pick a guise per element
_CONDNO = [0]


def xml_cond(cond, dm):
    if cond == "-": return None
    if cond == "never": return "false" if dm != "promela" else "0"
    if cond == "err":
        if dm not in COND_ERR: return "false"
        if _FLAVOR is None: return "nosuchfunction()"
        _CONDNO[0] += 1
        return COND_ERR[dm][(_FLAVOR + 7 * _CONDNO[0]) % len(COND_ERR[dm])]
    p = cond.split(":")
    if p[0] == "in": return "In('%s')" % p[1] if dm != "promela" else "_x.states[%s]" % p[1]
    if p[0] == "notin": return "not In('%s')" % p[1]
    if p[0] == "var": return "Var%s == %s" % (p[1], p[2])
    raise ValueError(cond)


def esc(s):
    return s.replace("&", "&amp;").replace("<", "&lt;").replace('"', "&quot;")


def xml_exec(e, dm):
    k = e[0]
    if k == "raise": return '<raise event="%s" uvid="%d"/>' % (e[2], e[1])
    if k == "log": return '<log label="%s" uvid="%d"/>' % (e[2], e[1])
    if k == "send":
        return '<send event="%s"%s uvid="%d"/>' % (e[2], ' target="%s"' % e[3] if e[3] else "", e[1])
    if k == "fail":
        forms = FAIL_FORMS[dm if dm in FAIL_FORMS else "null"]["comm" if e[2] == "comm" else "exec"]
        f = forms[0] if _FLAVOR is None else forms[(_FLAVOR + 31 * e[1]) % len(forms)]
        return f.replace("{uv}", str(e[1]))
    if k == "assign": return '<assign location="Var%d" expr="%d" uvid="%d"/>' % (e[2], e[3], e[1])
    if k == "incr": return '<assign location="Var%d" expr="Var%d + 1" uvid="%d"/>' % (e[2], e[2], e[1])
    if k == "if":
        return '<if cond="%s" uvid="%d">%s</if>' % (esc(xml_cond(e[2], dm) or "true"), e[1], "".join(xml_exec(c, dm) for c in e[3]))
    if k == "elseif": return '<elseif cond="%s"/>' % esc(xml_cond(e[1], dm) or "true")
    if k == "else": return "<else/>"
    raise ValueError(e)


def xml_node(n, dm, nvars=0):
    a = ""
    if n.kind == "scxml":
        a = ' xmlns="http://www.w3.org/2005/07/scxml" version="1.0" datamodel="%s"' % dm
        if n.late: a += ' binding="late"'
    elif n.id:
        a = ' id="%s"' % n.id
    if n.init is not None: a += ' initial="%s"' % " ".join(n.init)
    tag = {"hdeep": "history"}.get(n.kind, n.kind)
    if n.kind == "hdeep": a += ' type="deep"'
    if n.kind == "history": a += ' type="shallow"'
    s = "<%s%s>" % (tag, a)
    if n.kind == "scxml" and nvars:
        typ = ' type="int"' if dm == "promela" else ""     # the Promela back-end needs declared types
        s += "<datamodel>%s</datamodel>" % "".join('<data id="Var%d"%s expr="0"/>' % (i, typ) for i in range(nvars))
    for b in n.onentry: s += "<onentry>%s</onentry>" % "".join(xml_exec(e, dm) for e in b)
    for b in n.onexit: s += "<onexit>%s</onexit>" % "".join(xml_exec(e, dm) for e in b)
    for t in n.trans:
        ta = ""
        if t.event: ta += ' event="%s"' % t.event
        c = xml_cond(t.cond, dm)
        if c is not None: ta += ' cond="%s"' % esc(c)
        if t.internal: ta += ' type="internal"'
        if t.targets is not None: ta += ' target="%s"' % " ".join(t.targets)
        s += "<transition%s>%s</transition>" % (ta, "".join(xml_exec(e, dm) for e in t.content))
    for c in n.children: s += xml_node(c, dm, nvars)
    return s + "</%s>" % tag


def xml(n, dm="null", nvars=0, flavor=None):
    global _FLAVOR
    _FLAVOR = flavor; _CONDNO[0] = 0
    try:
        return xml_node(n, dm, nvars)
    finally:
        _FLAVOR = None


# ------------------------------------------------------------------------------- random charts
class Gen:
    def __init__(self, rng, max_states=10, events=("e", "f", "g"), p_history=0.3, p_parallel=0.35,
                 p_exec=0.5, p_fail=0.08, p_targetless=0.15, p_internal=0.15, p_multi=0.25, p_eventless=0.15,
                 p_cond=0.25, p_initial_elem=0.3, p_final=0.3, p_loop=0.25, dm="null", nvars=0, p_conderr=0.0, allow_in=True):
        self.__dict__.update(locals())
        self.n = 0
        self.uv = 0

    def fresh(self):
        self.n += 1
        return "s%d" % self.n

    def nuv(self):
        self.uv += 1
        return self.uv

    # --- tree
    def tree(self, budget, depth, in_parallel=False):
        """a proper state with about `budget` states below it"""
        r = self.rng
        if budget <= 0 or depth > 3:
            return Node("state", self.fresh())
        if r.random() < self.p_parallel and budget >= 2:
            k = min(budget, r.randint(2, 3))
            share = (budget - k) // k
            return Node("parallel", self.fresh(), children=[self.tree(share, depth + 1, True) for _ in range(k)])
        k = min(budget, r.randint(1, 3))
        share = (budget - k) // k
        kids = [self.tree(share, depth + 1) for _ in range(k)]
        if r.random() < self.p_final:
            kids.append(Node("final", self.fresh()))
            r.shuffle(kids)
        return Node("state", self.fresh(), children=kids)

    def chart(self):
        r = self.rng
        self.n = 0; self.uv = 0
        k = r.randint(1, 3)
        budget = r.randint(0, self.max_states)
        kids = [self.tree((budget) // k, 1) for _ in range(k)]
        if r.random() < 0.3:
            kids.append(Node("final", self.fresh()))
        root = Node("scxml", "root", children=kids).link()
        self.decorate(root)
        root.link()
        return root

    def legal_spec(self, scope, allow_hist=True):
        """a legal target list among the proper descendants of `scope` (optionally histories)"""
        r = self.rng
        cands = [d for d in scope.descendants() if d.kind in ("state", "parallel", "final") or (allow_hist and d.kind in ("history", "hdeep"))]
        if not cands: return None
        if r.random() < self.p_multi:
            pars = [d for d in [scope] + scope.descendants() if d.kind == "parallel" and len(d.proper_children()) >= 2]
            if pars:
                p = r.choice(pars)
                regs = r.sample(p.proper_children(), r.randint(2, len(p.proper_children())))
                out = []
                for g in regs:
                    opts = [g] + [d for d in g.descendants() if d.kind in ("state", "parallel", "final")]
                    # avoid nested parallels in deep picks to stay legal: pick along a single path
                    out.append(r.choice(opts).id)
                return out
        return [r.choice(cands).id]

    def block(self, depth=0):
        r = self.rng
        out = []
        for _ in range(r.randint(1, 3)):
            x = r.random()
            if self.nvars and x > 0.8:
                v = r.randrange(self.nvars)
                out.append(("assign", self.nuv(), v, r.choice([0, 1, 2])) if r.random() < 0.5 else ("incr", self.nuv(), v))
                continue
            if x < self.p_fail: out.append(("fail", self.nuv(), r.choice(["exec", "comm"])))
            elif x < 0.35: out.append(("raise", self.nuv(), r.choice(self.events if r.random() < self.p_loop else ("i1", "i2"))))
            elif x < 0.55: out.append(("log", self.nuv(), "L%d" % self.uv))
            elif x < 0.70: out.append(("send", self.nuv(), r.choice(self.events if r.random() < self.p_loop else ("i1", "i2")), r.choice(["", "", "#_internal"])))
            elif x < 0.9 and depth < 2:
                uv = self.nuv()
                ch = self.block(depth + 1)
                if r.random() < 0.5:
                    ch.append(("elseif", self.cond()))
                    ch += self.block(depth + 1)
                if r.random() < 0.5:
                    ch.append(("else",))
                    ch += self.block(depth + 1)
                out.append(("if", uv, self.cond(), ch))
            else: out.append(("log", self.nuv(), "L%d" % self.uv))
        return out

    def cond(self):
        r = self.rng
        x = r.random()
        if self.p_conderr and self.dm in COND_ERR and r.random() < self.p_conderr: return "err"
        if x < 0.15: return "never"
        if self.nvars and x < 0.5: return "var:%d:%d" % (r.randrange(self.nvars), r.choice([0, 1, 2, 3]))
        ids = getattr(self, "ids", ["s1"])
        if not self.allow_in:
            return "var:%d:%d" % (r.randrange(self.nvars), r.choice([0, 1, 2, 3])) if self.nvars else "never"
        return "in:" + r.choice(ids)

    def decorate(self, root):
        r = self.rng
        states = [s for s in root.walk()]
        self.ids = [s.id for s in states if s.kind in ("state", "parallel", "final")]
        all_targets = [s for s in states if s.kind in ("state", "parallel", "final")]
        # pseudo states and initial attributes
        for s in list(states):
            if s.kind in ("state", "scxml") and s.proper_children():
                if s.kind == "state" and r.random() < self.p_history:
                    deep = r.random() < 0.5
                    h = Node("hdeep" if deep else "history", self.fresh())
                    scope = s
                    cands = [d for d in (scope.descendants() if deep else scope.proper_children()) if d.kind in ("state", "parallel", "final")]
                    h.trans = [Trans(targets=[r.choice(cands).id], content=self.block() if r.random() < 0.3 else [])]
                    s.children.insert(r.randint(0, len(s.children)), h)
                x = r.random()
                if x < self.p_initial_elem and s.kind == "state":
                    i = Node("initial", "")
                    spec = self.legal_spec(s, allow_hist=False) or [s.proper_children()[0].id]
                    i.trans = [Trans(targets=spec, content=self.block() if r.random() < 0.3 else [])]
                    s.children.insert(r.randint(0, len(s.children)), i)
                elif x < self.p_initial_elem + 0.3:
                    s.init = self.legal_spec(s, allow_hist=False) or [s.proper_children()[0].id]
            if s.kind == "parallel" and r.random() < self.p_history * 0.5:
                h = Node("hdeep", self.fresh())
                cands = [d for d in s.descendants() if d.kind in ("state", "parallel", "final")]
                h.trans = [Trans(targets=[r.choice(cands).id])]
                s.children.insert(0, h)
        root.link()
        states = [s for s in root.walk()]
        hist = [s for s in states if s.kind in ("history", "hdeep")]
        # transitions and handlers
        for s in states:
            if s.kind in ("state", "parallel"):
                for _ in range(r.choice([0, 1, 1, 2, 3])):
                    t = Trans()
                    if r.random() >= self.p_eventless:
                        t.event = r.choice(self.events + (("i1",) if r.random() < 0.3 else ()))
                        if r.random() < 0.1: t.event = t.event + " " + r.choice(self.events)
                        if r.random() < 0.04: t.event = r.choice(["*", "done.state", "error", "done.state.*"])
                    if r.random() < self.p_cond or t.event is None: t.cond = self.cond()
                    if r.random() < self.p_targetless: t.targets = None
                    else:
                        x = r.random()
                        if x < self.p_multi:
                            t.targets = self.legal_spec(root) or [r.choice(all_targets).id]
                        elif x < self.p_multi + 0.15 and hist:
                            t.targets = [r.choice(hist).id]
                        elif x < self.p_multi + 0.35 and s.descendants():
                            t.targets = self.legal_spec(s) or [r.choice(all_targets).id]
                        else:
                            t.targets = [r.choice(all_targets).id]
                        t.internal = r.random() < self.p_internal
                    if r.random() < self.p_exec: t.content = self.block()
                    s.trans.append(t)
            if s.kind in ("state", "parallel", "final"):
                if r.random() < self.p_exec * 0.6: s.onentry.append(self.block())
                if r.random() < 0.1: s.onentry.append(self.block())
                if r.random() < self.p_exec * 0.6: s.onexit.append(self.block())
        # ids for In() are now known; nothing else to do


def events_for(rng, gen, n):
    return [rng.choice(gen.events) for _ in range(n)]


# ------------------------------------------------------------------------------- s-expression reader
def _tok(s):
    out, cur = [], ""
    for ch in s:
        if ch in "()":
            if cur: out.append(cur); cur = ""
            out.append(ch)
        elif ch == " ":
            if cur: out.append(cur); cur = ""
        else: cur += ch
    if cur: out.append(cur)
    return out


def _parse(toks, i):
    assert toks[i] == "("
    i += 1; lst = []
    while toks[i] != ")":
        if toks[i] == "(":
            sub, i = _parse(toks, i)
            lst.append(sub)
        else:
            lst.append(toks[i]); i += 1
    return lst, i + 1


def _exec_of(l):
    k = l[0]
    if k == "if": return ("if", int(l[1]), l[2], [_exec_of(x) for x in l[3:]])
    if k == "elseif": return ("elseif", l[1])
    if k == "else": return ("else",)
    if k == "send": return ("send", int(l[1]), l[2], "" if l[3] == "-" else l[3])
    if k in ("raise", "log", "fail"): return (k, int(l[1]), l[2])
    if k == "assign": return ("assign", int(l[1]), int(l[2]), int(l[3]))
    if k == "incr": return ("incr", int(l[1]), int(l[2]))
    raise ValueError(l)


def _node_of(l):
    n = Node(l[0], "" if l[1] == "-" else l[1])
    for it in l[2:]:
        h = it[0]
        if h == "init": n.init = list(it[1:])
        elif h == "binding": n.late = True
        elif h == "onentry": n.onentry.append([_exec_of(x) for x in it[1:]])
        elif h == "onexit": n.onexit.append([_exec_of(x) for x in it[1:]])
        elif h == "t":
            n.trans.append(Trans(event=None if it[1] == "-" else it[1].replace(",", " "), cond=it[2], internal=it[3] == "i",
                                 targets=None if it[4] == "-" else list(it[4]), content=[_exec_of(x) for x in it[5:]]))
        else: n.children.append(_node_of(it))
    return n


def from_sexpr(s):
    l, _ = _parse(_tok(s), 0)
    return _node_of(l).link()


# ------------------------------------------------------------------------------- chart classes
def has_history_target(root):
    hist = set(n.id for n in root.walk() if n.kind in ("history", "hdeep"))
    return any(t.targets and any(g in hist for g in t.targets)
               for n in root.walk() if n.kind not in ("history", "hdeep", "initial") for t in n.trans) or \
           any(t.targets and any(g in hist for g in t.targets)
               for n in root.walk() if n.kind in ("history", "hdeep", "initial") for t in n.trans) or \
           any(n.init and any(g in hist for g in n.init) for n in root.walk())


def has_nested_history(root):
    root.link()
    hs = [n for n in root.walk() if n.kind in ("history", "hdeep")]
    for h in hs:
        scope = h.parent.descendants()
        if any(o is not h and o.kind in ("history", "hdeep") for o in scope): return True
    return False


def has_nested_targetless_pair(root):
    """two transitions with nested sources of which at least one has no target (so that their exit sets cannot intersect), in a
    chart with a parallel state: the Recommendation may take both (they serve different regions), or take the outer one although
    the inner one was pre-empted by a transition of another region; the transpilers' selection - every transition is a candidate,
    pre-emption by the static conflict relation, which declares transitions with nested sources conflicting - differs.
    (A pre-filter only: a deviation is accepted as the recorded finding only if the run equals Appendix D with that selection.)"""
    root.link()
    if not any(n.kind == "parallel" for n in root.walk()): return False
    for s2 in root.walk():
        if not s2.trans: continue
        for s1 in s2.descendants():
            if s1 is s2 or not s1.trans: continue
            if any(t.targets is None for t in s1.trans + s2.trans): return True
    return False


# ------------------------------------------------------------------------------- invalid documents
def invalidate(rng, root, n=1, only=None):
    """apply n random structural corruptions (dangling target, initial outside, history without /
    with two / conditional default, non-orthogonal multi-target, duplicate id, missing id, ...).
    Returns the list of corruption names."""
    import copy
    done = []
    for _ in range(n):
        nodes = [x for x in root.walk()]
        states = [x for x in nodes if x.kind in ("state", "parallel", "final")]
        ts = [(x, t) for x in nodes for t in x.trans]
        k = rng.choice(["dangling", "init-outside", "init-outside-entered", "hist-none", "hist-two", "hist-cond", "hist-event", "multi", "dupid", "noid",
                        "init-bad", "emptytarget", "hist-target", "initial-two", "initial-cond", "initial-outside", "multi-deep", "multi-late"] if not only else list(only))
        try:
            if k == "dangling" and ts:
                x, t = rng.choice(ts); t.targets = (t.targets or []) + ["nosuch"]
            elif k == "emptytarget" and ts:
                x, t = rng.choice(ts); t.targets = []
            elif k == "init-outside":
                c = [x for x in states if x.proper_children() and x.kind == "state"]
                x = rng.choice(c); outs = [s for s in states if s is not x and s not in x.descendants()]
                x.children = [ch for ch in x.children if ch.kind != "initial"]; x.init = [rng.choice(outs).id]
            elif k == "init-outside-entered":
                # the state with the wrong initial attribute is entered by default at start-up: an accepted document is illegal at once
                path, cur = [], root
                byid = dict((x.id, x) for x in nodes if x.id)
                seen = set()
                while cur is not None and cur.proper_children() and id(cur) not in seen:      # (an earlier corruption may have made the initial attributes cyclic)
                    seen.add(id(cur))
                    if cur.kind == "state" and cur is not root: path.append(cur)
                    nxt = None
                    if cur.init: nxt = byid.get(cur.init[0])
                    else:
                        ini = [ch for ch in cur.children if ch.kind == "initial"]
                        if ini and ini[0].trans and ini[0].trans[0].targets: nxt = byid.get(ini[0].trans[0].targets[0])
                    cur = nxt if nxt is not None else cur.proper_children()[0]
                x = rng.choice(path); outs = [s for s in states if s is not x and s not in x.descendants()]
                x.children = [ch for ch in x.children if ch.kind != "initial"]; x.init = [rng.choice(outs).id]
            elif k == "init-bad":
                c = [x for x in states if x.proper_children() and x.kind == "state"]
                x = rng.choice(c); x.children = [ch for ch in x.children if ch.kind != "initial"]; x.init = ["nosuch2"]
            elif k in ("hist-none", "hist-two", "hist-cond", "hist-event", "hist-target"):
                hs = [x for x in nodes if x.kind in ("history", "hdeep")]
                h = rng.choice(hs)
                if k == "hist-none": h.trans = []
                elif k == "hist-two": h.trans = h.trans + [Trans(targets=list(h.trans[0].targets))]
                elif k == "hist-cond": h.trans[0].cond = "in:" + states[0].id
                elif k == "hist-event": h.trans[0].event = "e"
                else:
                    outs = [s for s in states if s is not h.parent and s not in h.parent.descendants()]
                    h.trans[0].targets = [rng.choice(outs).id]
            elif k in ("multi", "multi-deep") and ts:
                x, t = rng.choice(ts)
                comp = [s for s in nodes if s.kind in ("state", "scxml") and len(s.proper_children()) >= 2]
                c = rng.choice(comp); a, b = rng.sample(c.proper_children(), 2)
                if k == "multi-deep":
                    a = rng.choice([a] + [q for q in a.descendants() if q.kind in PROPER]); b = rng.choice([b] + [q for q in b.descendants() if q.kind in PROPER])
                t.targets = [a.id, b.id]
            elif k == "multi-late" and ts:
                # three targets, the incompatible pair is not the first one examined: a, something compatible with a, a's sibling
                x, t = rng.choice(ts)
                comp = [s for s in nodes if s.kind in ("state", "scxml") and len(s.proper_children()) >= 2]
                c = rng.choice(comp); a, b = rng.sample(c.proper_children(), 2)
                mids = [q for q in a.descendants() if q.kind in PROPER] + ([c] if c.kind == "state" else [])
                t.targets = [a.id, rng.choice(mids).id, b.id] if rng.random() < 0.7 else [rng.choice(mids).id, a.id, b.id]
            elif k == "dupid" and len(states) >= 2:
                a, b = rng.sample(states, 2); b.id = a.id
            elif k == "noid":
                rng.choice([s for s in states if s.kind != "final"]).id = ""
            elif k in ("initial-two", "initial-cond", "initial-outside"):
                ins = [x for x in nodes if x.kind == "initial"]
                i = rng.choice(ins)
                if k == "initial-two": i.trans = i.trans + [Trans(targets=list(i.trans[0].targets))]
                elif k == "initial-cond": i.trans[0].cond = "in:" + states[0].id
                else:
                    outs = [s for s in states if s is not i.parent and s not in i.parent.descendants()]
                    i.trans[0].targets = [rng.choice(outs).id]
            else: continue
            done.append(k)
        except (IndexError, ValueError):
            continue
    root.link()
    return done
